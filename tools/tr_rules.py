"""T9 (type-checker stages): the table-like parts of registration, the inference rules and abi_type_for
-> coq/gen/RulesSig.v

 * `InferenceRules::default()`: the list of rules (src/tc/rule/mod.rs), and the struct -> file map;
 * `is_stable_typed`: the constructors that make a value stably typed (src/tc/state/mod.rs);
 * `register_internal`: every arm rebuilds the same constructor, registers the child fields in declaration order
   and passes the payload through; head (look up BEFORE descending) and tail (fresh variable, expression and
   inference entries, stable insertion AFTER building) have the recognised text;
 * the rules whose body is one `match value.data()` with straight-line arms are translated arm by arm into a
   table (constructor -> [(field | self, type expression)]); arms with computed expressions must be in the
   dictionary of recognised texts (they select a hand-written Gallina term);
 * the other rules: their normalised body must be one of the recognised texts; the texts that decide panic
   freedom (F7: `p * WORD_SIZE_BITS` vs `p.saturating_mul(WORD_SIZE_BITS)`, `* BYTE_SIZE_BITS`, and the nested
   offset sum `ofs + offset` in abi_type_for_impl) select a checked (`Panic` on overflow) or a saturating term,
   so that reverting a repair selects the overflowing term and the no-panic proofs fail;
 * abi_type_for_impl: the `seen` cut and insertion, the widths and the AbiValue shapes are anchored by text.

Strict: anything not recognised is a problem string."""
import os
import re

from translate import HEADER, match_brace, norm, read, write_if_changed
import tr_valuesig as VS

RULE_DIR = "src/tc/rule"

# TE constructor helpers of expression.rs: recognised definitions -> Gallina
TE_CTORS = {
    "numeric": ("pub fn numeric(width:Option<usize>)->Self{Self::word(width,WordUse::Numeric)}", "Word %s UNumeric"),
    "unsigned_word": ("pub fn unsigned_word(width:Option<usize>)->Self{Self::word(width,WordUse::UnsignedNumeric)}", "Word %s UUnsignedNumeric"),
    "signed_word": ("pub fn signed_word(width:Option<usize>)->Self{Self::word(width,WordUse::SignedNumeric)}", "Word %s USignedNumeric"),
    "bytes": ("pub fn bytes(width:Option<usize>)->Self{Self::word(width,WordUse::Bytes)}", "Word %s UBytes"),
    "bool": ("pub fn bool()->Self{let usage=WordUse::Bool;Self::word(usage.size(),usage)}", "Word (wuse_size UBool) UBool"),
    "address": ("pub fn address()->Self{let usage=WordUse::Address;Self::word(usage.size(),usage)}", "Word (wuse_size UAddress) UAddress"),
    "selector": ("pub fn selector()->Self{let usage=WordUse::Selector;Self::word(usage.size(),usage)}", "Word (wuse_size USelector) USelector"),
    "function": ("pub fn function()->Self{let usage=WordUse::Function;Self::word(usage.size(),usage)}", "Word (wuse_size UFunction) UFunction"),
    "word": ("pub fn word(width:Option<usize>,usage:WordUse)->Self{Self::Word{width,usage}}", None),
    "eq": ("pub fn eq(id:TypeVariable)->Self{Self::Equal{id}}", None),
    "mapping": ("pub fn mapping(key:TypeVariable,value:TypeVariable)->Self{Self::Mapping{key,value}}", None),
    "dyn_array": ("pub fn dyn_array(element:TypeVariable)->Self{Self::DynamicArray{element}}", None),
    "packed_of": ("pub fn packed_of(types:Vec<impl Into<Span>>)->Self{let types:Vec<Span>=types.into_iter().map_into().collect();Self::Packed{types,is_struct:false}}", None),
}

TABLE_RULES = ["ArithmeticOperationRule", "BitShiftRule", "BooleanOpsRule", "CreateContractRule", "EnvironmentCodesRule",
               "ExternalCallRule", "HashRule", "OffsetSizeRule", "ExtCodeRule"]

# arms of table rules that are not straight-line: recognised text -> name of the hand-written Gallina arm
SPECIAL_ARMS = {
    ("ArithmeticOperationRule", "SignExtend"):
        {"state.infer_for(extend_val,TE::signed_word(None));state.infer_for(size,TE::unsigned_word(None));"
         "let width=if let TCSVD::KnownData{value}=size.data(){let width:usize=value.into();"
         "if width<=WORD_SIZE_BITS{Some(width)}else{None}}else{None};state.infer_for(value,TE::signed_word(width));":
         ("sign_extend_arm", {"extend_val": "value", "size": "size"})},
}

# whole-body rules: recognised normalised bodies of `fn infer` -> the Gallina definition that models it
BODY_RULES = {
    "CallDataRule": {
        "let TCSVD::CallData{size,..}=value.data()else{return Ok(());};"
        "let TCSVD::KnownData{value:byte_size}=size.data().constant_fold()else{return Ok(());};"
        "let value_bits:usize=<KnownWord as Into<usize>>::into(byte_size)%s;"
        "state.infer_for(value,TE::bytes(Some(value_bits)));Ok(())": "call_data_rule",
    },
    "DynamicArrayWriteRule": {
        "let TCSVD::StorageWrite{key:b,value:g}=value.data()else{return Ok(());};"
        "let TCSVD::StorageSlot{key:c}=b.data()else{return Ok(());};"
        "let TCSVD::DynamicArrayIndex{slot:d,index:f}=c.data()else{return Ok(());};"
        "let TCSVD::StorageSlot{..}=d.data()else{return Ok(());};"
        "let b_tv=state.var_unchecked(b);let g_tv=state.var_unchecked(g);state.infer(b_tv,TE::eq(g_tv));"
        "state.infer_for(f,TE::unsigned_word(None));state.infer_for(d,TE::dyn_array(b_tv));Ok(())": "dynamic_array_write_rule",
    },
    "MappingAccessRule": {
        "if let TCSVD::StorageSlot{key}=value.data(){let TCSVD::MappingIndex{key,slot,projection}=key.data()else{return Ok(());};"
        "let p=projection.unwrap_or(0);let key_tv=state.var_unchecked(key);let original_val_ty=state.var_unchecked(value);"
        "let val_ty=unsafe{state.allocate_ty_var()};"
        "state.infer(val_ty,TE::packed_of(vec![Span::new(original_val_ty,%s,WORD_SIZE_BITS)]));"
        "let slot_ty=TE::mapping(key_tv,val_ty);state.infer_for(slot,slot_ty);}Ok(())": "mapping_access_rule",
        # 66cf5b5: no struct span for a projection whose bit offset (or its end) does not fit in usize
        "if let TCSVD::StorageSlot{key}=value.data(){let TCSVD::MappingIndex{key,slot,projection}=key.data()else{return Ok(());};"
        "let p=projection.unwrap_or(0);let key_tv=state.var_unchecked(key);let original_val_ty=state.var_unchecked(value);"
        "let val_ty=unsafe{state.allocate_ty_var()};"
        "if let Some(offset)=p.checked_mul(WORD_SIZE_BITS).filter(|offset|offset.checked_add(WORD_SIZE_BITS).is_some()){"
        "state.infer(val_ty,TE::packed_of(vec![Span::new(original_val_ty,offset,WORD_SIZE_BITS)]));}"
        "let slot_ty=TE::mapping(key_tv,val_ty);state.infer_for(slot,slot_ty);}Ok(())": "mapping_access_rule#guarded",
    },
    "MaskedWordRule": {
        "let TCSVD::SubWord{value:sub_value,offset,size}=value.data()else{return Ok(());};"
        "let a_tv=state.var_unchecked(value);let b_tv=state.var_unchecked(sub_value);"
        "let inferred_word=TE::bytes(Some(*size));state.infer(a_tv,inferred_word);"
        "let inferred_packed=TE::packed_of(vec![Span::new(a_tv,*offset,*size)]);state.infer(b_tv,inferred_packed);Ok(())": "masked_word_rule",
    },
    "PackedEncodingRule": {
        "let TCSVD::Packed{elements}=value.data()else{return Ok(())};"
        "let element_spans:Vec<Span>=elements.iter().map(|span|Span::new(state.var_unchecked(&span.value),span.offset,span.size)).collect();"
        "let packed_type=TE::packed_of(element_spans);state.infer_for(value,packed_type);Ok(())": "packed_encoding_rule",
    },
    "SLoadIsInnerTypesRule": {
        "let TCSVD::SLoad{value:inner_value,key}=value.data()else{return Ok(());};"
        "let inner_value_tv=state.var_unchecked(inner_value);let slot_tv=state.var_unchecked(key);"
        "state.infer_for(value,TE::eq(inner_value_tv));state.infer_for(value,TE::eq(slot_tv));Ok(())": "s_load_rule",
    },
    "StorageKeyRule": {
        "let TCSVD::StorageSlot{key}=value.data()else{return Ok(());};state.infer_for(key,TE::unsigned_word(None));Ok(())": "storage_key_rule",
    },
    "StorageWriteRule": {
        "match value.data(){TCSVD::StorageWrite{key,value}=>{let key_tv=state.var_unchecked(key);let key_type=TE::eq(key_tv);"
        "let value_tv=state.var_unchecked(value);let value_type=TE::eq(value_tv);"
        "state.infer(key_tv,value_type);state.infer(value_tv,key_type);Ok(())}_=>Ok(())}": "storage_write_rule",
    },
}

# the arithmetic texts that decide panic freedom: text -> (kind, Gallina)
MUL_ANCHORS = {
    "call_data": {".saturating_mul(BYTE_SIZE_BITS)": ("saturating", "Ok (usize_sat_mul n BYTE_SIZE_BITS)"),
                  "*BYTE_SIZE_BITS": ("checked", "usize_mul 9101 n BYTE_SIZE_BITS")},
    "mapping": {"p.saturating_mul(WORD_SIZE_BITS)": ("saturating", "Ok (Some (usize_sat_mul n WORD_SIZE_BITS))"),
                "p*WORD_SIZE_BITS": ("checked", "match usize_mul 9102 n WORD_SIZE_BITS with Ok o => Ok (Some o) | Err e => Err e | Panic s => Panic s end")},
}
ABI_ADD = {"(ty,ofs.saturating_add(offset))": ("saturating", "Ok (usize_sat_add ofs offset)"),
           "(ty,ofs+offset)": ("checked", "usize_add 9103 ofs offset")}

STATE_HEAD = ("let is_stable=Self::is_stable_typed(&value);if is_stable{if let Some(r)=self.stable_types.get(&value){return r.clone();}}"
              "let instruction_pointer=value.instruction_pointer();let provenance=value.provenance();"
              "let new_data=match(*value).clone().consume().data{")
STATE_TAIL = ("};let type_var=self.tyvar_source.fresh();let new_value=TCSV::new(instruction_pointer,new_data,provenance,type_var);"
              "self.expressions.entry(type_var).or_insert(new_value.clone());self.inferences.entry(type_var).or_insert(HashSet::new());"
              "if is_stable{self.stable_types.insert(value,new_value.clone());}new_value")
INFER_BODY = ("let variable=variable.into();let expression=expression.into();if let TE::Equal{id}=&expression{if id==&variable{return;}"
              "self.inferences.get_mut(id).unwrap().insert(TE::eq(variable));}self.inferences.get_mut(&variable).unwrap().insert(expression);")
ALLOC_BODY = ("let new_tv=self.tyvar_source.fresh();let value_for_var=TCSV::new(0,TCSVD::new_value(),Provenance::Synthetic,new_tv);"
              "self.expressions.entry(new_tv).or_insert(value_for_var);self.inferences.entry(new_tv).or_insert(HashSet::new());new_tv")
INFER_FOR_BODY = "let var=value.type_var();self.infer(var,expression);var"

# abi_type_for_impl: the parts of the text that the model depends on
ABI_CUT = ("let type_expr=self.type_of(var)?;if seen_exprs.contains(&type_expr)&&type_expr.is_type_constructor(){"
           "return Ok(AbiType::InfiniteType.into());}seen_exprs.insert(type_expr.clone());"
           "let location=self.state.value(var).unwrap().instruction_pointer();let abi_type:AbiValue=match type_expr{")
ABI_CUT_NOINSERT = ABI_CUT.replace("seen_exprs.insert(type_expr.clone());", "")
ABI_PACKED_HEAD = ("TE::Packed{types,is_struct}=>{let mut pairs=Vec::new();for Span{typ,offset,..}in types{"
                   "match self.abi_type_for_impl(typ,seen_exprs,ParentType::Packed)?{AbiValue::Packed(xs)=>{"
                   "pairs.extend(xs.into_iter().map(|(ty,ofs)|%s));}AbiValue::Type(ty)=>pairs.push((ty.clone(),offset))}}")
# repaired (nested packed encodings must stay inside the word the span starts in): the flattening is guarded
ABI_PACKED_HEAD_FIT = ("TE::Packed{types,is_struct}=>{let mut pairs=Vec::new();for Span{typ,offset,..}in types{"
                       "match self.abi_type_for_impl(typ,seen_exprs,ParentType::Packed)?{AbiValue::Packed(xs)=>{"
                       "let start_in_word=offset%%WORD_SIZE_BITS;"
                       "let fits=xs.iter().all(|(ty,ofs)|{let start=start_in_word.saturating_add(*ofs);"
                       "start<WORD_SIZE_BITS&&ty.bit_width().map_or(true,|w|start.saturating_add(w)<=WORD_SIZE_BITS)});"
                       "if fits{pairs.extend(xs.into_iter().map(|(ty,ofs)|%s));}else{pairs.push((AbiType::Any,offset));}}"
                       "AbiValue::Type(ty)=>pairs.push((ty.clone(),offset))}}")
# AbiType::bit_width (src/tc/abi.rs): recognised arms -> (names, kind)
BIT_WIDTH_ARMS = {
    "*size": "BwField", "*length": "BwField",
    "length.map(|l|l.saturating_mul(BYTE_SIZE_BITS))": "BwBytes",
}
IS_TC = ("match self{Self::Any|Self::Word{..}|Self::Conflict{..}|TE::Bytes=>false,"
         "Self::FixedArray{..}|Self::Mapping{..}|Self::DynamicArray{..}|Self::Equal{..}|Self::Packed{..}=>true}")


def nn(s):
    """norm, plus the operators `norm` leaves spaced"""
    return re.sub(r"\s*([%@])\s*", r"\1", norm(s))


def fn_body(src, header_re):
    m = re.search(header_re, src)
    if not m:
        return None
    j = src.index("{", m.end() - 1)
    e = match_brace(src, j)
    return src[j + 1:e - 1]


def split_top(s, sep=","):
    parts, depth, cur = [], 0, ""
    for c in s:
        if c in "([{":
            depth += 1
        elif c in ")]}":
            depth -= 1
        if depth == 0 and c == sep:
            parts.append(cur)
            cur = ""
        else:
            cur += c
    if cur.strip():
        parts.append(cur)
    return parts


def match_arms(inner):
    """normalised text of the inside of a `match {}` -> [(pattern, rhs)]"""
    arms = []
    i, n = 0, len(inner)
    while i < n:
        j = inner.find("=>", i)
        if j < 0:
            break
        pat = inner[i:j]
        k = j + 2
        if k < n and inner[k] == "{":
            e = match_brace(inner, k)
            rhs = inner[k + 1:e - 1]
            k = e
            if k < n and inner[k] == ",":
                k += 1
        else:
            depth = 0
            e = k
            while e < n:
                c = inner[e]
                if c in "([{":
                    depth += 1
                elif c in ")]}":
                    depth -= 1
                elif c == "," and depth == 0:
                    break
                e += 1
            rhs = inner[k:e]
            k = e + 1
        arms.append((pat, rhs))
        i = k
    return arms


def te_term(txt, problems, where):
    """`TE::numeric(None)` etc. -> Gallina"""
    m = re.fullmatch(r"TE::(\w+)\((.*)\)", txt)
    if not m or m.group(1) not in TE_CTORS or TE_CTORS[m.group(1)][1] is None:
        problems.append("%s: unrecognised type expression %s" % (where, txt))
        return "Any"
    fmt = TE_CTORS[m.group(1)][1]
    arg = m.group(2)
    if "%s" not in fmt:
        if arg:
            problems.append("%s: unexpected argument in %s" % (where, txt))
        return fmt
    if arg == "None":
        return fmt % "None"
    m2 = re.fullmatch(r"Some\((\w+)\)", arg)
    if m2 and re.fullmatch(r"[A-Z_]+", m2.group(1)):
        return fmt % ("(Some %s)" % m2.group(1))
    problems.append("%s: unrecognised width %s" % (where, arg))
    return fmt % "None"


def parse_pattern(alt, sig, problems, where):
    """`TCSVD::Name{a,b:c,..}` -> (Name, {local: field})"""
    m = re.fullmatch(r"TCSVD::(\w+)(?:\{(.*)\})?", alt)
    if not m or m.group(1) not in sig:
        problems.append("%s: unrecognised pattern %s" % (where, alt))
        return None, {}
    name, binds = m.group(1), {}
    for b in split_top(m.group(2) or ""):
        b = b.strip()
        if not b or b == "..":
            continue
        if ":" in b:
            f, l = b.split(":", 1)
        else:
            f, l = b, b
        kinds = dict(sig[name])
        if f not in kinds:
            problems.append("%s: %s has no field %s" % (where, name, f))
            continue
        if kinds[f] != "FChild":
            problems.append("%s: field %s.%s is not a single child" % (where, name, f))
            continue
        binds[l] = f
    return name, binds


def parse_stmts(rhs, binds, problems, where):
    """straight-line arm -> [(field|self, te)] or None when not straight-line"""
    out = []
    rest = rhs
    if rest.endswith("Ok(())"):
        rest = rest[:-6]
    for st in [s for s in rest.split(";") if s]:
        m = re.fullmatch(r"state\.infer_for\((\w+),(TE::\w+\(.*\))\)", st)
        if m:
            targets = [m.group(1)]
        else:
            m = re.fullmatch(r"state\.infer_for_many\(\[([\w,]+)\],(TE::\w+\(.*\))\)", st)
            if not m:
                return None
            targets = m.group(1).split(",")
        te = te_term(m.group(2), problems, where)
        for t in targets:
            if t in binds:
                out.append((binds[t], te))
            elif t == "value":
                out.append(("self", te))
            else:
                problems.append("%s: unknown target %s" % (where, t))
    return out


def coq_str(s):
    return '"%s"%%string' % s


def step_rules(repo, out, consts):
    problems = []
    info = {}
    vsrc = read(repo, "src/vm/value/mod.rs")
    variants = VS.parse_enum(vsrc)
    sig = {}
    for name, fields in variants:
        sig[name] = [(fn, VS.KINDS.get(ft, "FUsize")) for fn, ft in fields]

    # ---- expression.rs helpers
    esrc = norm(read(repo, "src/tc/expression.rs"))
    for k, (txt, _) in TE_CTORS.items():
        if txt not in esrc:
            problems.append("expression.rs: TE::%s does not have the recognised definition" % k)
    m = re.search(r"pub fn is_type_constructor\(&self\)->bool\{", esrc)
    if not m or esrc[m.end():match_brace(esrc, m.end() - 1) - 1] != IS_TC:
        problems.append("expression.rs: is_type_constructor not recognised")

    # ---- default rule list
    msrc = read(repo, RULE_DIR + "/mod.rs")
    body = None
    m = re.search(r"impl Default for InferenceRules\s*\{\s*fn default\(\)\s*->\s*Self\s*\{", msrc)
    rules = []
    if not m:
        problems.append("InferenceRules::default not found")
    else:
        body = norm(msrc[m.end():match_brace(msrc, m.end() - 1) - 1])
        mm = re.fullmatch(r"let mut rules=Self::new\(\);((?:rules\.add\(\w+\);)*)rules", body)
        if not mm:
            problems.append("InferenceRules::default: body not recognised: " + body[:200])
        else:
            rules = re.findall(r"rules\.add\((\w+)\);", mm.group(1))
    info["rules"] = len(rules)
    # struct -> file
    where_is = {}
    for f in sorted(os.listdir(os.path.join(repo, RULE_DIR))):
        if f.endswith(".rs") and f != "mod.rs":
            s = read(repo, RULE_DIR + "/" + f)
            for st in re.findall(r"pub struct (\w+);", s):
                where_is[st] = f
    tables = {}
    selected = {}
    anchors = {}
    for r in rules + [x for x in ("ExtCodeRule",) if x in where_is and x not in rules]:
        if r not in where_is:
            problems.append("rule %s: no `pub struct %s;` under %s" % (r, r, RULE_DIR))
            continue
        s = read(repo, RULE_DIR + "/" + where_is[r])
        b = fn_body(s, r"impl InferenceRule for %s\s*\{[^{]*fn infer\(&self,\s*value:\s*&TCBoxedVal,\s*state:\s*&mut TypeCheckerState\)\s*->\s*Result<\(\)>\s*" % r)
        if b is None:
            problems.append("rule %s: fn infer not found" % r)
            continue
        nb = norm(b)
        if r in TABLE_RULES:
            mm = re.fullmatch(r"match value\.data\(\)\{(.*)\};?(?:Ok\(\(\)\))?", nb)
            if not mm:
                problems.append("rule %s: body is not a single match: %s" % (r, nb[:160]))
                continue
            rows = []
            for pat, rhs in match_arms(mm.group(1)):
                if pat == "_":
                    if rhs not in ("()", "Ok(())"):
                        problems.append("rule %s: default arm does something: %s" % (r, rhs))
                    continue
                for alt in split_top(pat, "|"):
                    name, binds = parse_pattern(alt, sig, problems, r)
                    if name is None:
                        continue
                    st = parse_stmts(rhs, binds, problems, "%s/%s" % (r, name))
                    if st is None:
                        sp = SPECIAL_ARMS.get((r, name), {}).get(rhs)
                        if sp is None:
                            problems.append("rule %s: arm %s is not straight-line and not a recognised text: %s" % (r, name, rhs[:300]))
                        else:
                            fn, want = sp
                            if binds != want:
                                problems.append("rule %s: arm %s binds %r, expected %r" % (r, name, binds, want))
                            rows.append((name, "special", fn))
                    else:
                        rows.append((name, "table", st))
            names = [x[0] for x in rows]
            if len(names) != len(set(names)):
                problems.append("rule %s: a constructor has several arms" % r)
            tables[r] = rows
        elif r in BODY_RULES:
            found = None
            for txt, fn in BODY_RULES[r].items():
                if "%s" in txt:
                    key = "call_data" if r == "CallDataRule" else "mapping"
                    for atxt, (kind, term) in MUL_ANCHORS[key].items():
                        if nb == txt % atxt:
                            found = fn
                            anchors[key] = (kind, term, atxt)
                elif nb == txt:
                    found = fn.split("#")[0]
                    if fn.endswith("#guarded"):
                        anchors["mapping"] = ("guarded", "Ok (if n * WORD_SIZE_BITS + WORD_SIZE_BITS <? two64 then Some (n * WORD_SIZE_BITS) else None)",
                                              "p.checked_mul(WORD_SIZE_BITS).filter(|o| o.checked_add(WORD_SIZE_BITS).is_some())")
            if not found:
                problems.append("rule %s: body not recognised: %s" % (r, nb[:400]))
            selected[r] = found or "unrecognised_rule"
        else:
            problems.append("rule %s is not known to the translator" % r)
    for key in MUL_ANCHORS:
        if key not in anchors:
            anchors[key] = ("checked", MUL_ANCHORS[key][[k for k, v in MUL_ANCHORS[key].items() if v[0] == "checked"][0]][1], "?")

    # ---- state/mod.rs
    ssrc = read(repo, "src/tc/state/mod.rs")
    stable = []
    b = fn_body(ssrc, r"fn is_stable_typed\(value:\s*&RuntimeBoxedVal\)\s*->\s*bool\s*")
    nb = norm(b or "")
    mm = re.fullmatch(r"match value\.data\(\)\{((?:RSVD::\w+\{\.\.\}\|?)+)=>true,_=>value\.children\(\)\.into_iter\(\)\.any\(\|c\|Self::is_stable_typed\(&c\)\)\}", nb)
    if not mm:
        problems.append("is_stable_typed: body not recognised: " + nb[:300])
    else:
        stable = re.findall(r"RSVD::(\w+)\{\.\.\}", mm.group(1))
        for t in stable:
            if t not in sig:
                problems.append("is_stable_typed: unknown constructor " + t)
    b = fn_body(ssrc, r"fn register_internal\(&mut self,\s*value:\s*RuntimeBoxedVal\)\s*->\s*TCBoxedVal\s*")
    nb = norm(b or "")
    if not (nb.startswith(STATE_HEAD) and nb.endswith(STATE_TAIL)):
        problems.append("register_internal: head/tail not recognised (lookup before descending, insertion after building)")
    else:
        arms = match_arms(nb[len(STATE_HEAD):len(nb) - len(STATE_TAIL)])
        seen = set()
        for pat, rhs in arms:
            mp = re.fullmatch(r"RSVD::(\w+)(?:\{(.*)\})?", pat)
            if not mp or mp.group(1) not in sig:
                problems.append("register_internal: pattern not recognised: " + pat)
                continue
            name = mp.group(1)
            seen.add(name)
            pf = [x for x in split_top(mp.group(2) or "") if x]
            decl = sig[name]
            if pf != [f for f, _ in decl]:
                problems.append("register_internal: %s binds %r, declared %r" % (name, pf, [f for f, _ in decl]))
                continue
            mr = re.fullmatch(r"TCSVD::(\w+)(?:\{(.*)\})?", rhs)
            if not mr or mr.group(1) != name:
                problems.append("register_internal: %s is rebuilt as %s" % (name, rhs[:80]))
                continue
            parts = [x for x in split_top(mr.group(2) or "") if x]
            if len(parts) != len(decl):
                problems.append("register_internal: %s rebuilt with %d fields" % (name, len(parts)))
                continue
            for (f, kind), p in zip(decl, parts):
                want = {
                    "FChild": "%s:self.register_internal(%s)" % (f, f),
                    "FChildren": None,
                    "FSpans": "%s:%s.into_iter().map(|e|{let new_elem=self.register_internal(e.value);PackedSpan::new(e.offset,e.size,new_elem)}).collect()" % (f, f),
                }.get(kind, f)
                if kind == "FChildren":
                    if not re.fullmatch(r"%s:%s\.into_iter\(\)\.map\(\|(\w)\|self\.register_internal\(\1\)\)\.collect\(\)" % (f, f), p):
                        problems.append("register_internal: %s.%s: %s" % (name, f, p))
                elif p != want:
                    problems.append("register_internal: %s.%s is %s (expected %s: declaration order, every child registered)" % (name, f, p, want))
        missing = [n for n in sig if n not in seen]
        if missing:
            problems.append("register_internal: no arm for " + ", ".join(missing))
    for fn, hdr, want in (("infer", r"pub fn infer\(\s*&mut self,\s*variable:\s*impl Into<TypeVariable>,\s*expression:\s*impl Into<TypeExpression>,?\s*\)\s*", INFER_BODY),
                          ("allocate_ty_var", r"pub unsafe fn allocate_ty_var\(&mut self\)\s*->\s*TypeVariable\s*", ALLOC_BODY),
                          ("infer_for", r"pub fn infer_for\(\s*&mut self,\s*value:\s*&TCBoxedVal,\s*expression:\s*impl Into<TypeExpression>,?\s*\)\s*->\s*TypeVariable\s*", INFER_FOR_BODY)):
        b = fn_body(ssrc, hdr)
        if b is None or norm(b) != want:
            problems.append("TypeCheckerState::%s: body not recognised: %s" % (fn, norm(b or "")[:300]))

    # ---- abi_type_for_impl
    tsrc = read(repo, "src/tc/mod.rs")
    b = fn_body(tsrc, r"fn abi_type_for_impl\(\s*&mut self,\s*var:\s*TypeVariable,\s*seen_exprs:\s*&mut HashSet<TypeExpression>,\s*parent:\s*ParentType,?\s*\)\s*->\s*Result<AbiValue>\s*")
    nb = nn(b or "")
    seen_insert = True
    if nb.startswith(ABI_CUT):
        pass
    elif nb.startswith(ABI_CUT_NOINSERT):
        seen_insert = False
        problems.append("abi_type_for_impl: the resolved expression is never inserted into seen_exprs (the cycle cut cannot fire)")
    else:
        problems.append("abi_type_for_impl: head (type_of, seen cut, insertion, location) not recognised: " + nb[:300])
    add_kind = None
    nested_fit = None
    for atxt, (kind, term) in ABI_ADD.items():
        if (ABI_PACKED_HEAD % atxt) in nb:
            add_kind = (kind, term, atxt)
            nested_fit = "unchecked"
        if (ABI_PACKED_HEAD_FIT % atxt) in nb:
            add_kind = (kind, term, atxt)
            nested_fit = "checked"
    if add_kind is None:
        problems.append("abi_type_for_impl: the Packed arm / nested offset accumulation is not recognised")
        add_kind = ("checked", ABI_ADD["(ty,ofs+offset)"][1], "?")
    for frag in ("Some(w)if w%BYTE_SIZE_BITS==0=>AbiType::Bytes{length:width.map(|w|w/BYTE_SIZE_BITS)}.into()",
                 "Some(w)=>AbiType::Bits{length:Some(w)}.into()", "None=>AbiType::Bytes{length:None}.into()",
                 "WordUse::Numeric=>AbiType::Number{size:width}.into()", "WordUse::UnsignedNumeric=>AbiType::UInt{size:width}.into()",
                 "WordUse::SignedNumeric=>AbiType::Int{size:width}.into()",
                 "if parent==ParentType::Packed{AbiValue::Packed(pairs)}else if pairs.is_empty(){AbiType::Any.into()}else if pairs.len()==1{"
                 "let pair@(typ,offset)=pairs.first().unwrap();if*offset==0{typ.into()}else{AbiValue::Packed(vec![(AbiType::Bytes{length:Some(offset/BYTE_SIZE_BITS)},0),pair.clone()])}}"
                 "else if is_struct{let elements=pairs.into_iter().map(|(typ,offset)|StructElement::new(offset,typ)).collect();AbiType::Struct{elements}.into()}"
                 "else{AbiValue::Packed(pairs)}"):
        if frag not in nb:
            problems.append("abi_type_for_impl: fragment not found: " + frag[:90])
    for u in ("Bool", "Address", "Selector", "Function"):
        if ("WordUse::%s=>{if width!=usage.size(){return Err(Error::InvalidInference{" % u) not in nb:
            problems.append("abi_type_for_impl: width check of %s not found" % u)

    # ---- AbiType::bit_width (src/tc/abi.rs)
    bw_rows = []
    asrc = read(repo, "src/tc/abi.rs")
    b = fn_body(asrc, r"pub fn bit_width\(&self\)\s*->\s*Option<usize>\s*")
    if b is None:
        if nested_fit == "checked":
            problems.append("AbiType::bit_width not found although abi_type_for_impl uses it")
    else:
        mm = re.fullmatch(r"match self\{(.*)\}", nn(b))
        if not mm:
            problems.append("AbiType::bit_width: body is not a single match: " + nn(b)[:200])
        else:
            arms = match_arms(mm.group(1))
            if not arms or arms[-1] != ("_", "None"):
                problems.append("AbiType::bit_width: the last arm is not `_ => None`")
            for pat, rhs in arms[:-1]:
                for alt in split_top(pat, "|"):
                    m1 = re.fullmatch(r"Self::(\w+)(?:\{(\w+)\})?", alt)
                    if not m1:
                        problems.append("AbiType::bit_width: pattern not recognised: " + alt)
                        continue
                    name, field = m1.group(1), m1.group(2)
                    m2 = re.fullmatch(r"Some\(([A-Z_]+)\)", rhs)
                    if m2 and field is None:
                        if m2.group(1) not in consts:
                            problems.append("AbiType::bit_width: unknown constant " + m2.group(1))
                        bw_rows.append((name, "BwConst %s" % m2.group(1)))
                    elif rhs in BIT_WIDTH_ARMS and field is not None and rhs.lstrip("*").startswith(field):
                        bw_rows.append((name, BIT_WIDTH_ARMS[rhs]))
                    else:
                        problems.append("AbiType::bit_width: arm not recognised: %s => %s" % (alt, rhs))
            names = [n for n, _ in bw_rows]
            if len(names) != len(set(names)):
                problems.append("AbiType::bit_width: a variant has several arms")

    # ---- output
    s = HEADER + "(* T9: registration / inference rules / abi_type_for anchors (tools/tr_rules.py) *)\n"
    s += "From Coq Require Import List NArith String.\nFrom SLX Require Import Base Word256 gen.Constants gen.ValueSig gen.WordUseTable TypeExpr.\n"
    s += "Import ListNotations.\nOpen Scope N_scope.\n\n"
    s += "(* usize::saturating_mul / saturating_add *)\n"
    s += "Definition usize_sat_mul (a b : N) : N := N.min (a * b) (two64 - 1).\n"
    s += "Definition usize_sat_add (a b : N) : N := N.min (a + b) (two64 - 1).\n\n"
    s += "(* InferenceRules::default(), in source order *)\n"
    s += "Definition default_rules : list string := [" + "; ".join(coq_str(r) for r in rules) + "].\n\n"
    s += "(* is_stable_typed: the constructors that make a value stably typed *)\n"
    s += "Definition stable_tags : list tag := [" + "; ".join("T_" + t for t in stable) + "].\n\n"
    s += "(* rules that are one `match value.data()` with straight-line arms: constructor -> judgements;\n"
    s += "   a target is a child field name or \"self\" (the value itself) *)\n"
    s += "Definition rule_table := list (tag * list (string * te)).\n"
    for r in TABLE_RULES:
        rows = tables.get(r, [])
        s += "Definition table_%s : rule_table := [\n" % r
        s += ";\n".join("  (T_%s, [%s])" % (n, "; ".join("(%s, %s)" % (coq_str(f), te) for f, te in st))
                        for n, k, st in rows if k == "table")
        s += "].\n"
        s += "Definition special_%s : list (tag * string) := [%s].\n" % (
            r, "; ".join("(T_%s, %s)" % (n, coq_str(fn)) for n, k, fn in rows if k == "special"))
    s += "\n(* rules modelled by hand: the Gallina definition selected by the recognised body text *)\n"
    s += "Definition selected_rules : list (string * string) := [" + "; ".join(
        "(%s, %s)" % (coq_str(r), coq_str(fn)) for r, fn in sorted(selected.items())) + "].\n\n"
    s += "(* call_data.rs: bits of a call-data slice of n bytes -- %s *)\n" % anchors["call_data"][2]
    s += "Definition calldata_bits (n : N) : outcome N unit := %s.\n" % anchors["call_data"][1]
    s += "(* mapping_access.rs: bit offset of the struct span for projection n (None: no span is inferred) -- %s *)\n" % anchors["mapping"][2]
    s += "Definition mapping_span_offset (n : N) : outcome (option N) unit := %s.\n" % anchors["mapping"][1]
    s += "(* tc/mod.rs abi_type_for_impl: nested packed offset -- %s *)\n" % add_kind[2]
    s += "Definition abi_nested_add (ofs offset : N) : outcome N unit := %s.\n" % add_kind[1]
    s += "Definition abi_seen_insert : bool := %s.\n" % ("true" if seen_insert else "false")
    s += "(* tc/mod.rs abi_type_for_impl: a nested packed encoding is flattened only when every element stays inside the\n"
    s += "   word its span starts in (true), or unconditionally (false: the pinned text) -- %s *)\n" % (nested_fit or "not recognised")
    s += "Definition abi_nested_fit : bool := %s.\n" % ("true" if nested_fit == "checked" else "false")
    s += "(* tc/abi.rs AbiType::bit_width: variant -> how its width is obtained (every other variant: None) *)\n"
    s += "Inductive bw_kind := BwField | BwBytes | BwConst (n : N).\n"
    s += "Definition bit_width_table : list (string * bw_kind) := [" + "; ".join(
        "(%s, %s)" % (coq_str(n), k) for n, k in bw_rows) + "].\n"
    s += "Definition arith_kinds : list (string * string) := [(\"call_data\", \"%s\"); (\"mapping\", \"%s\"); (\"abi_add\", \"%s\")]%%string.\n" % (
        anchors["call_data"][0], anchors["mapping"][0], add_kind[0])
    write_if_changed(os.path.join(out, "RulesSig.v"), s)
    info.update({"stable": stable, "table_rules": {r: len(tables.get(r, [])) for r in TABLE_RULES},
                 "arith": {"call_data": anchors["call_data"][0], "mapping": anchors["mapping"][0], "abi_add": add_kind[0],
                           "nested_fit": nested_fit or "unrecognised"}, "bit_width_arms": len(bw_rows)})
    return problems, info


steps = [("T9-tc-stages", step_rules)]
