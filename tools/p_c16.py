"""C16 -- combining typing evidence is independent of order and grouping."""
import collections
import json

import mergelib
import vlib

MANIFEST = {
    "text": "Coq model of unification::merge with ALL arms (result expression, emitted equalities and judgements, fresh-variable "
            "counter, panics; WordUse::merge/size/is_definitely_signed regenerated from expression.rs on every run). The property "
            "AS QUANTIFIED -- all 1 600 ordered pairs and 64 000 ordered triples of the 40-element evidence domain -- is decided "
            "completely inside Coq (forallb + vm_compute + forallb_forall): commutativity on every pair; associativity and "
            "order-independence of the left fold on every triple outside the recorded class K1|K2; the class is tight (every triple in "
            "it is order dependent) and position independent; C16_refuted gives the witness. Beyond the quantifier: merge_comm and "
            "merge_assoc_outside_known for ALL type expressions without Packed (any widths, lengths, variables, conflict payloads). "
            "Equivalence = same closure of emitted equalities, expressions equal up to it and up to conflict payloads, judgements as "
            "sets; it is proved to be an equivalence relation and to be decided by the boolean the check evaluates. The model is tied "
            "to the code by running the REAL merge on every pair and triple of the domain and on random expressions (packed spans "
            "overlapping/unsorted/empty, Equal, usize overflow) and comparing every field inside Coq; commutativity and "
            "associativity are also evaluated directly on the implementation's outputs.",
    "note": "merge is NOT associative on the pinned tree (known finding K1 of DESIGN.md: array-like types absorb words; component "
            "equalities emitted under one order only). Failures are classified with the Coq predicates K1/K2: inside -> KNOWN-FINDING "
            "(keys C16:K1, C16:K2), outside -> VIOLATION. Associativity is claimed (and evaluated) for evidence without Packed "
            "encodings only; Packed cases are checked for model = implementation and for commutativity. Trusted: Coq kernel + "
            "vm_compute; translator T3 (regex over three function bodies); harness printer; tools/mergelib.py (syntactic "
            "let-abstraction of the printed terms).",
    "technique": "Coq proof by reflection over the enumerated domain + general proof by simulation on payload-free shapes; translated "
                 "usage table; exhaustive differential correspondence evaluated inside Coq",
}

CODES = {1: "expression differs", 2: "emitted equalities differ", 3: "emitted judgements differ", 4: "fresh variables / counter differ",
         5: "panic on one side only", 6: "malformed chain",
         10: "merge(a,b) and merge(b,a) are not equivalent (implementation outputs)",
         11: "merge(merge(a,b),c) and merge(a,merge(b,c)) are not equivalent, outside the known class (implementation outputs)",
         50: "associativity fails inside known class K1 (array-like type absorbs two contradictory words)",
         51: "associativity fails inside known class K2 (component equalities emitted under one order only)"}

HOW = "printf '%s\\n' '<line>' | build/harness-target/debug/slxh merge   (then coq/MergeCases.v check_case)"


def check(ctx):
    hb = mergelib.prepare(ctx, "props/C16.v")
    if hb:
        if ctx.replay_in:
            lines = [json.load(open(ctx.replay_in))["replay"]["line"]]
            cls = ["replay"]
        else:
            lines = mergelib.corpus("C16")
            cls = ["corpus"] * len(lines)
            dl, dc = mergelib.domain_lines(ctx, all_triples=True)
            lines += dl
            cls += dc
            nrand = 4000 if ctx.quick else 120000
            rl = mergelib.random_lines(ctx.rng, nrand) + mergelib.word_fold_lines(ctx.rng, nrand // 10)
            lines += rl
            cls += ["random"] * len(rl)
        terms, bad = mergelib.run_suite(ctx, hb, lines, "check_case", "merge")
        if terms is not None:
            by_code = collections.Counter(c for _, c in bad)
            disagreements = []
            seen_known = set()
            for idx, code in bad:
                what = "%s: %s" % (CODES.get(code, code), lines[idx][:300])
                replay = {"line": lines[idx], "code": code, "meaning": CODES.get(code), "impl": terms[idx][:3000], "how": HOW}
                if code in (50, 51):
                    key = "C16:K1" if code == 50 else "C16:K2"
                    if key not in seen_known:       # one witness per class is enough; the count is in the evidence
                        seen_known.add(key)
                        ctx.violate(key, what, replay)
                elif code >= 10:
                    ctx.violate("C16:%d:%s" % (code, lines[idx][:120]), what, replay)
                else:
                    disagreements.append(what)
            ctx.oblige("correspondence:merge", "correspondence", not disagreements, "\n".join(disagreements[:10]))
            kinds = collections.Counter()
            modes = collections.Counter()
            packed = 0
            for l in lines:
                toks = l.split()
                modes[toks[0]] += 1
                ks = [mergelib.kind(t) for t in toks[3:] if t not in ("]", "R[") and not t.startswith("i")]
                kinds.update(ks)
                packed += any(k == "Packed" for k in ks)
            outcome = collections.Counter()
            for t in terms:
                last = t.rsplit("IOk (mk_xres ", 1)[-1] if "IOk" in t else ""
                outcome["panic" if "IPanic" in t else ("conflict" if last.startswith("(XConflict") else "resolved")] += 1
            ctx.coverage.update({
                "evaluations": len(lines),
                "distinct_nontrivial": len(set(l for l in lines if "Any" not in l.split()[3:])),
                "traces_validated_against_impl": len(lines),
                "input_classes": dict(collections.Counter(cls)), "modes": dict(modes), "constructor_histogram": dict(kinds),
                "cases_with_packed": packed, "impl_outcomes": dict(outcome),
                "codes": {str(k): v for k, v in sorted(by_code.items())},
                "known_class_hits": {"C16:K1": by_code.get(50, 0), "C16:K2": by_code.get(51, 0)},
                "exhaustive": True,
                "exhaustive_note": "all 1 600 ordered pairs and all 64 000 ordered triples of the 40-element domain, in both tiers "
                                   "(through the real merge and through the Coq model); random cases on top",
            })
    return vlib.finish(ctx, rule="one evaluation = one harness line (pair: both orders; triple: both groupings; fold: one left fold), "
                       "distinct lines counted; non-trivial = no operand is Any; known-class hits are counted, one witness each is replayed",
                       samples=(mergelib.domain()[:4] + ["triple 0 2 W:8:Bool W:160:Address D:0"]))
