"""C11 -- a slot's reported type depends only on the code that touches that slot."""
import collections
import json

import gen
import layoutlib as L
import vlib

MANIFEST = {
    "text": "Pairs of generated fragments over disjoint slot sets are analysed separately and together behind a dispatcher (two dispatcher shapes) or composed sequentially on ONE path (no dispatcher: the fragments share call-data arguments, scratch memory and environment reads); an injective renumbering of the slot constants (small to small, small to > 2^128, changing PUSH widths) is applied to one fragment. The four layouts of each case are compared INSIDE Coq: layout(A+B) must be the sorted union of layout(A) and layout(B), and layout(rename A) must be the renamed layout(A) with unchanged types and offsets. Registration is modelled (Register.v) and proved for ALL value lists: every sub-term gets a variable (register_covers_subterms), the same stable value shares one typed node (register_stable_shared), a value without stable part gets only fresh variables (register_unstable_fresh), and two registered values without a common stable sub-term share no type variable (register_disjoint) -- so evidence of unrelated slots lives on disjoint variables; invariance under permutation of the value list is proved in full (register_order in props/C02_register.v: the registered states are equal up to a bijective renaming of type variables) and evaluated on the implementation (check_order). At the unification stage locality is PROVED on the order-free fragment (props/C11_unify.v, fragment coq/UnifyOrder.v: no packed encodings, homogeneous congruence-closure classes): C11_unify_disjoint_union -- for variable-disjoint judgement sets side by side, under ANY iteration orders, all runs return, two variables of a part share a class in the whole iff they do in the part alone, variables of different parts never share a class, and every variable gets the same type as in its part alone; C11_closure_disjoint_union proves the congruence closure local for all disjoint judgement sets; C11_unify_packed_fresh_names_refuted shows that with packed encodings the NAMES of fresh span variables depend on the other fragment (one global counter). Equivariance of unification under renaming is not proved: decided by the metamorphic search (partial).",
    "note": "Trusted: Coq kernel for the comparison; the fragment generator and renamer (tools/gen.py); harness.",
    "technique": "metamorphic search (union of independent fragments, injective slot renaming) with the comparison evaluated inside Coq; "
                 "stage lemmas partial",
}


def check(ctx):
    vlib.translate(ctx)
    vlib.prove(ctx, "props/C11.v", ["LayoutCases.vo"])
    vlib.prove(ctx, "props/C11_unify.v")   # the unification stage: disjoint judgement sets do not influence each other
    hb = vlib.harness_bin(ctx)
    rng = ctx.rng
    cases = []
    n = 150 if ctx.quick else 2500
    small = list(range(0, 12))
    big = [2 ** 128 + i for i in range(1, 40)] + [2 ** 200 + 7, 2 ** 255 + 3, 1000, 65536] + gen.hash_lookalikes()[:6] + [480, 581]
    for _ in range(n):
        na, nb = rng.randrange(1, 5), rng.randrange(1, 5)
        slots = rng.sample(small + big[:6], na + nb)
        va = gen.random_vars(rng, na, slots=slots[:na])
        vb = gen.random_vars(rng, nb, slots=slots[na:])
        disp = rng.choice(["selector", "chain", "sequence"])
        # injective renaming of A's slots (keeps away from A's own numbers to stay injective)
        targets = rng.sample([t for t in small + big if t not in slots[:na]], na)
        rho = dict(zip(slots[:na], targets))
        for v in va:
            # the folded-constant form of an array's data start (PUSH32 keccak(slot)) is an idiom only for slots in the
            # hash table: a renaming out of the table must start from the run-time form
            if v.kind == "dynarray" and v.style == "folded" and rho[v.slot] >= 10000:
                v.style = "shl"
        ca = gen.compile_layout(va, rng, dispatcher=disp)
        cb = gen.compile_layout(vb, rng, dispatcher=disp)
        cab = gen.compile_layout(va + vb, rng, dispatcher=disp)
        var_r = [gen.Var(v.kind, rho[v.slot], v.access, keys=v.keys, value=v.value, fields=v.fields, style=v.style, srcs=v.srcs) for v in va]
        car = gen.compile_layout(var_r, rng, dispatcher=disp)
        cases.append((ca, cb, cab, car, rho))
    stage = vlib.stage_replay(ctx)
    if ctx.replay_in and not stage:
        r = json.load(open(ctx.replay_in))["replay"]
        cases = [(bytes.fromhex(r["a"]), bytes.fromhex(r["b"]), bytes.fromhex(r["ab"]), bytes.fromhex(r["renamed"]),
                  {int(k): v for k, v in r["rho"].items()})]
    if hb and not stage:
        flat = [c for case in cases for c in case[:4]]
        out = L.analyze(ctx, hb, flat)
        terms = []
        for i, case in enumerate(cases):
            a, b, ab, ar = out[4 * i:4 * i + 4]
            rho = ";".join("(%d,%d)" % kv for kv in case[4].items())
            terms.append(L.hexify("mk_c11case (%s) (%s) (%s) [%s] (%s)" % (a, b, ab, rho, ar)))
        bad = vlib.run_cases(ctx, "locality", L.HEADER, terms, per_shard=max(1, len(terms) // 32 + 1), fn="check_c11")
        names = {76: "the layout of two independent fragments (behind a dispatcher, or one after the other on one path) is not the union of their layouts",
                 77: "renumbering the slot constants changed more than the slot indices", 78: "panic",
                 79: "a fragment fails on its own but succeeds behind a dispatcher next to an unrelated fragment"}
        for idx, code in bad:
            ca, cb, cab, car, rho = cases[idx]
            ctx.violate("C11:%d:%s" % (code, cab.hex()[:48]), "%s" % names.get(code, code),
                        {"a": ca.hex(), "b": cb.hex(), "ab": cab.hex(), "renamed": car.hex(), "rho": {str(k): v for k, v in rho.items()},
                         "layouts": [o[:500] for o in out[4 * idx:4 * idx + 4]]})
        ctx.coverage.update({"evaluations": len(cases), "distinct_nontrivial": len(set(c[2] for c in cases)),
                             "analyses_run": len(flat)})
    import p_tc_stages as TS
    TS.suite(ctx, translate=False, parts=("register", "order"), codes={"register": {10, 11, 13, 14}, "order": {15}}, cov_key="tc_stages",
             only=r"^(is_stable|register_)")
    return vlib.finish(ctx, rule="(fragment A, fragment B, A+B, renamed A) quadruples over disjoint slot sets; all non-trivial; distinct = "
                       "distinct combined bytecodes", samples=[c[2].hex()[:100] for c in cases[:2]])
