"""C19 -- the union-find forest and its vector map match their abstract models."""
import collections
import json
import os
import subprocess

import vlib

MANIFEST = {
    "text": "Coq theorems over faithful models of VectorMap (dense Vec<Option<V>> + size counter) and DisjointSet (parent "
            "vector, recursive find WITH path compression and auto-insert, union/add_data/get_data/set_data/sets/values) for "
            "ALL operation histories (induction over the history, no bound) and an arbitrary data type with combine/identity: "
            "the concrete run never panics and never runs out of the fuel given to find, returns exactly the outputs of a naive "
            "partition model (member -> representative table, representative -> data table) and its state abstracts to the "
            "model's state; the partition is the equivalence closure of the union pairs; for a commutative monoid the data of a "
            "set is the monoid sum of everything added to its members (nothing lost, nothing counted twice); VectorMap "
            "contents/presence/len equal an ordinary finite map's after every sequence of inserts, overwrites and removals "
            "(absent keys included). The hand-written models are tied to the code by a correspondence run: the real "
            "DisjointSet<usize, D> (D = HashSet<u32> and a multiset) and VectorMap<usize, u64> run operation sequences "
            "(exhaustive over a 4-element universe, random up to length 400 over 64 elements); inside Coq every returned value "
            "is compared with the abstract specification (property) and with the concrete model (correspondence).",
    "note": "Trusted: Coq kernel + vm_compute; the harness (prints the implementation's results as Coq terms; sets()/values() "
            "are sorted because their order is documented as arbitrary) and the generators. The pinned DisjointSet::insert "
            "re-roots a value that is already a non-representative member (it silently leaves its set): histories doing that are "
            "the known class K-C19-reinsert, the theorems cover every history outside it (and every history at all once insert "
            "is guarded; the model has both bodies and the harness probes which one the code has). Data::default() in sets() is "
            "modelled as Combine::identity(). Allocation (an insert at index k allocates k+1 slots) is outside the model. "
            "max_key_index() is modelled and cross-checked but is not part of the property (it reports the backing vector's "
            "length - 1, not the largest present key).",
    "technique": "Coq proof (forward simulation between the concrete forest and the partition model, rank function for "
                 "acyclicity, pigeonhole bound for find's fuel) + differential correspondence evaluated inside Coq; exhaustive "
                 "enumeration of histories with merging of identical implementation states",
}

U4 = [0, 1, 2, 3]


def dsu_alphabet(univ):
    a = ["i%d" % v for v in univ] + ["f%d" % v for v in univ]
    a += ["u%d,%d" % (x, y) for x in univ for y in univ]
    a += ["a%d:%d" % (v, v) for v in univ] + ["g%d" % v for v in univ] + ["s%d:%d" % (v, 10 + v) for v in univ]
    return a + ["S", "V"]


def dsu_probe(univ):
    # observes the complete state of the partition model: members, data of every set, representative of every member
    return ";".join(["V"] + ["g%d" % v for v in univ] + ["f%d" % v for v in univ])


class PyPartition:
    """Bookkeeping for the generators and the coverage numbers only (never used as an oracle)."""

    def __init__(self):
        self.rep = {}

    def touch(self, v):
        fresh = v not in self.rep
        if fresh:
            self.rep[v] = v
        return fresh

    def find(self, v):
        return self.rep[v]

    def union(self, a, b):
        ra, rb = self.rep[a], self.rep[b]
        if ra != rb:
            for k in self.rep:
                if self.rep[k] == rb:
                    self.rep[k] = ra
        return ra != rb


def dsu_stats(seq, st):
    """classifies one sequence (text form) and updates the histogram `st`"""
    p = PyPartition()
    explicit = set()
    nontrivial_union = data_op = False
    for t in seq.split(";"):
        c = t[0]
        st["op:" + c] += 1
        if c in "SV":
            continue
        body = t[1:].split(":")[0]
        vs = [int(x) for x in body.split(",")]
        if c == "i":
            if vs[0] in p.rep:
                st["insert-of-existing-member"] += 1
                if p.find(vs[0]) != vs[0]:
                    st["insert-of-non-representative-member(K-reinsert)"] += 1
            explicit.add(vs[0])
            p.touch(vs[0])
            continue
        for v in vs:
            if p.touch(v):
                st["operation-on-never-inserted-element"] += 1
        if c == "u":
            if vs[0] == vs[1]:
                st["union-of-element-with-itself"] += 1
            elif p.union(vs[0], vs[1]):
                st["union-of-two-sets"] += 1
                nontrivial_union = True
            else:
                st["union-of-already-joined-elements"] += 1
        elif c in "as":
            data_op = True
            if c == "s":
                st["set_data"] += 1
    return nontrivial_union and data_op


def rand_dsu(rng, length, nelem, clean):
    pool = rng.sample(range(nelem), min(nelem, rng.choice([2, 3, 5, 8, 12, 24])))
    p = PyPartition()
    ops = []

    def elem():
        return rng.choice(pool) if rng.random() < 0.7 else rng.randrange(nelem)

    def datum():
        r = rng.random()
        if r < 0.08:
            return ""
        k = 1 if r < 0.7 else rng.choice([2, 3])
        return ",".join(str(rng.randrange(20)) for _ in range(k))

    kinds = "i" * 8 + "f" * 12 + "u" * 30 + "a" * 22 + "g" * 15 + "s" * 4 + "S" * 4 + "V" * 3
    while len(ops) < length:
        c = rng.choice(kinds)
        if c == "i":
            v = elem()
            if clean and v in p.rep and p.find(v) != v:
                cands = [x for x in range(nelem) if x not in p.rep]
                if not cands:
                    continue
                v = rng.choice(cands)
            p.touch(v)
            ops.append("i%d" % v)
        elif c == "u":
            r = rng.random()
            a = elem()
            if r < 0.08:
                b = a
            elif r < 0.35 and a in p.rep:
                # an element already joined with a (possibly a itself when a is alone)
                b = rng.choice([x for x in p.rep if p.find(x) == p.find(a)])
            else:
                b = elem()
            p.touch(a)
            p.touch(b)
            p.union(a, b)
            ops.append("u%d,%d" % (a, b))
        elif c in "fg":
            v = elem()
            p.touch(v)
            ops.append("%s%d" % (c, v))
        elif c in "as":
            v = elem()
            p.touch(v)
            ops.append("%s%d:%s" % (c, v, datum()))
        else:
            ops.append(c)
    return ";".join(ops)


def vec_alphabet(keys, vals):
    return ["i%d:%d" % (k, v) for k in keys for v in vals] + ["r%d" % k for k in keys]


def vec_probe(keys):
    return ";".join(["I"] + ["g%d" % k for k in keys] + ["J"])


def all_seqs(alphabet, depth):
    level = [""]
    for _ in range(depth):
        nxt = []
        for s in level:
            for a in alphabet:
                t = a if not s else s + ";" + a
                nxt.append(t)
                yield t
        level = nxt


def vec_stats(seq, st):
    present = set()
    nontrivial = False
    for t in seq.split(";"):
        c = t[0]
        st["op:" + c] += 1
        if c == "i":
            k = int(t[1:].split(":")[0])
            if k in present:
                st["overwrite"] += 1
                nontrivial = True
            present.add(k)
        elif c == "r":
            k = int(t[1:])
            if k in present:
                st["removal-of-present-key"] += 1
                present.discard(k)
            else:
                st["removal-of-absent-key"] += 1
                nontrivial = True
        elif c in "gm":
            if int(t[1:]) not in present:
                st["lookup-of-absent-key"] += 1
    return nontrivial


def rand_vec(rng, length, nkeys):
    pool = rng.sample(range(nkeys), min(nkeys, rng.choice([2, 4, 8, 16])))
    ops = []
    for _ in range(length):
        k = rng.choice(pool) if rng.random() < 0.75 else rng.randrange(nkeys)
        if rng.random() < 0.02:
            k = rng.choice([64, 100, 127, 128, 200, 300])
        c = rng.choice("iiiiiirrrrggmIJ")
        if c == "i":
            ops.append("i%d:%d" % (k, rng.choice([rng.randrange(5), rng.randrange(1000), 2 ** 64 - 1])))
        elif c in "rgm":
            ops.append("%s%d" % (c, k))
        else:
            ops.append(c)
    return ";".join(ops)


DCODES = {1: "concrete model differs from implementation", 2: "model out of fuel", 3: "model panics",
          11: "find returned a different representative than the partition model (different partition)",
          12: "get_data differs from the partition model (data lost, duplicated or misplaced)",
          13: "sets() differs from the partition model", 14: "wrong kind of result", 15: "panic",
          16: "values() differs from the partition model", 17: "number of outputs"}
VCODES = {1: "concrete model differs from implementation", 2: "model error", 3: "model panics",
          11: "contents/presence differ from the finite map", 12: "len() differs from the finite map",
          13: "is_empty() differs from the finite map", 15: "panic", 17: "number of observations"}

HEADER = ("From Coq Require Import String.\nFrom SLX Require Import Base VectorMap DisjointSet DsuCases.\nOpen Scope N_scope.\n")


def explore(hb, monoid, depth, full, alphabet):
    p = subprocess.run([hb, "dsu-explore", monoid, str(depth), str(full)] + alphabet, stdout=subprocess.PIPE,
                       stderr=subprocess.PIPE, text=True, timeout=900)
    return p.returncode, p.stdout.split("\n")[:-1], p.stderr.strip()


def check(ctx):
    vlib.prove(ctx, "props/C19.v", ["DsuCases.vo"])
    ctx.log("theorems checked")
    hb = vlib.harness_bin(ctx)
    ctx.log("harness built")
    if not hb:
        return vlib.finish(ctx)
    rng = ctx.rng
    quick = ctx.quick
    cov = ctx.coverage
    dsu_in = collections.OrderedDict()   # line -> class
    groups = collections.OrderedDict()   # (monoid, prefix) -> [next operation]
    vec_in = collections.OrderedDict()

    rp = json.load(open(ctx.replay_in)).get("replay") if ctx.replay_in else None
    if rp:
        (dsu_in if rp["suite"] == "dsu" else vec_in)[rp["input"]] = "replay"
    else:
        try:
            for l in open(vlib.ROOT + "/corpus/C19.txt"):
                l = l.split("#")[0].strip()
                if l.startswith("dsu "):
                    dsu_in.setdefault(l[4:], "corpus")
                elif l.startswith("vecmap "):
                    vec_in.setdefault(l[7:], "corpus")
        except FileNotFoundError:
            pass
        # --- DisjointSet: exhaustive over a 4-element universe (identical implementation states merged),
        #     evaluated in grouped form (one prefix, all next operations) -- see group_suite below
        alpha = dsu_alphabet(U4)
        probe = dsu_probe(U4)
        depth = 3 if quick else 6
        full = 1
        info = {}
        runs = [("multi", depth, full), ("set", depth, full)]
        if not quick:
            runs.append(("multi", 3, 3))     # every history of up to 3 operations literally: cross-checks the merging
        for monoid, dep, ful in runs:
            rc, lines, err = explore(hb, monoid, dep, ful, alpha)
            ctx.oblige("harness:dsu-explore:%s:%d:%d" % (monoid, dep, ful), "correspondence", rc == 0 and lines, err[-300:])
            info["%s depth %d unmerged %d" % (monoid, dep, ful)] = err
            for l in lines:
                m, seq = l.split(" ", 1)
                path, _, alt = seq.rpartition(";")
                alts = groups.setdefault((m, path), [])
                if alt not in alts:
                    alts.append(alt)
        cov["dsu_exhaustive"] = {
            "universe": U4, "alphabet": alpha, "operations_up_to": depth, "probe_suffix": probe,
            "unmerged_up_to": full if quick else 3, "explorer": info,
            "argument": "one history per (distinct implementation state reached in < depth operations, operation); the probe "
                        "suffix observes the whole partition-model state, so sequences reaching the same implementation state "
                        "with all outputs equal to the specification's also have equal specification states: their "
                        "continuations are covered by the representative's (see harness/src/cmd_dsu_explore.rs)"}
        # --- DisjointSet: random histories over 64 elements
        lens = [5, 10, 20, 50, 100, 200, 400] if quick else [5, 10, 20, 50, 100, 200, 300, 400]
        per_len = 12 if quick else 80
        for n in lens:
            for i in range(per_len):
                monoid = ("multi", "set")[i % 2]
                clean = (i % 4) != 3
                nelem = 64 if i % 3 else rng.choice([4, 8, 64])
                s = rand_dsu(rng, n, nelem, clean)
                dsu_in.setdefault("%s %s" % (monoid, s), "random-clean" if clean else "random-any-insert")
        # --- VectorMap: exhaustive insert/overwrite/remove sequences, then random
        keys = [0, 1, 3]
        vdepth = 3 if quick else 5
        for s in all_seqs(vec_alphabet(keys, [7, 8]), vdepth):
            vec_in.setdefault(s + ";" + vec_probe(keys), "exhaustive-depth-%d" % vdepth)
        cov["vecmap_exhaustive"] = {"keys": keys, "values": [7, 8], "operations_up_to": vdepth,
                                    "alphabet": vec_alphabet(keys, [7, 8]), "probe_suffix": vec_probe(keys)}
        if not quick:
            keys4 = [0, 1, 2, 5]
            for s in all_seqs(vec_alphabet(keys4, [7, 8]), 4):
                vec_in.setdefault(s + ";" + vec_probe(keys4), "exhaustive-4-keys-depth-4")
        for n in lens:
            for i in range(per_len):
                vec_in.setdefault(rand_vec(rng, n, rng.choice([4, 64])), "random")

    # ------------------------------------------------------------------------------ run + evaluate
    def report(viol, name, codes, cmd, fn):
        """shortest histories first; of the known class only a few witnesses are kept (they are all alike)"""
        known_kept = 0
        for _, key, k, code in sorted(viol):
            if key == "C19:K-reinsert":
                known_kept += 1
                if known_kept > 20:
                    continue
            ctx.violate(key, "%s: %s on history `%s`" % (name, codes.get(code, code), k[:300]),
                        {"suite": name, "input": k, "code": code, "meaning": codes.get(code),
                         "how": "printf '%%s\\n' '<input>' | build/harness-target/debug/slxh %s   (then coq/DsuCases.v %s)" % (cmd, fn)})

    def suite(name, inputs, cmd, fn, codes, stats_fn, strip_monoid):
        keys = list(inputs.keys())
        if not keys:
            return
        ctx.log("%s: %d histories" % (name, len(keys)))
        rc, out, err = vlib.run_harness(hb, [cmd], "\n".join(keys) + "\n")
        lines = out.split("\n")[:-1]
        ctx.log("%s: implementation ran" % name)
        ok = rc == 0 and len(lines) == len(keys) and "BADINPUT" not in lines
        ctx.oblige("harness:" + cmd, "correspondence", ok, "rc=%s lines=%d/%d %s" % (rc, len(lines), len(keys), err[-300:]))
        if not ok:
            return
        st = collections.Counter()
        nontrivial = 0
        lengths = collections.Counter()
        for k in keys:
            seq = k.split(" ", 1)[1] if strip_monoid else k
            if stats_fn(seq, st):
                nontrivial += 1
            n = seq.count(";") + 1
            lengths["<=8" if n <= 8 else "<=20" if n <= 20 else "<=100" if n <= 100 else "<=250" if n <= 250 else "<=420"] += 1
        small = [i for i, l in enumerate(lines) if len(l) <= 1500]
        large = [i for i, l in enumerate(lines) if len(l) > 1500]
        bad = [(small[i], c) for i, c in vlib.run_cases(ctx, name + "-small", HEADER, [lines[i] for i in small],
                                                         per_shard=600, fn=fn, timeout=400)]
        if large:
            bad += [(large[i], c) for i, c in vlib.run_cases(ctx, name + "-large", HEADER, [lines[i] for i in large],
                                                             per_shard=6, fn=fn, timeout=400)]
        ctx.log("%s: evaluated in Coq, %d non-zero codes" % (name, len(bad)))
        outcome = collections.Counter()
        disagreements = []
        viol = []
        for idx, code in bad:
            k = keys[idx]
            outcome[code] += 1
            if code >= 30:
                viol.append((len(k), "C19:K-reinsert", k, code - 20))
            elif code >= 10:
                viol.append((len(k), "C19:%s:%d:%s" % (name, code, k[:80]), k, code))
            else:
                disagreements.append("%s: %s" % (k[:200], codes.get(code, code)))
        outcome[0] = len(keys) - len(bad)
        report(viol, name, codes, cmd, fn)
        ctx.oblige("correspondence:" + name, "correspondence", not disagreements,
                   "%d disagreements; first: %s" % (len(disagreements), "\n".join(disagreements[:5])))
        cov[name] = {"evaluations": len(keys), "distinct_nontrivial": nontrivial, "input_classes": dict(collections.Counter(inputs.values())),
                     "history_lengths": dict(lengths), "measured": dict(st),
                     "check_codes": {str(c): n for c, n in sorted(outcome.items())}}
        if strip_monoid:
            cov[name]["monoids"] = dict(collections.Counter(k.split(" ", 1)[0] for k in keys))
            guards = collections.Counter(l.split(" ")[1] for l in lines)
            cov[name]["insert_guarded_probe"] = dict(guards)

    def group_suite():
        probe = dsu_probe(U4)
        keys = list(groups.keys())
        ctx.log("dsu-exhaustive: %d prefixes, %d histories" % (len(keys), sum(len(v) for v in groups.values())))
        text = "".join("%s %s|%s\n" % (m, path, "|".join(alts)) for (m, path), alts in groups.items())
        rc, out, err = vlib.run_harness(hb, ["dsu-group", probe], text)
        lines = out.split("\n")[:-1]
        ok = rc == 0 and len(lines) == len(keys) and "BADINPUT" not in lines
        ctx.oblige("harness:dsu-group", "correspondence", ok, "rc=%s lines=%d/%d %s" % (rc, len(lines), len(keys), err[-300:]))
        if not ok:
            return
        ctx.log("dsu-exhaustive: implementation ran")
        probe_term = "[" + ";".join({"V": "DValues", "g": "DGet %s", "f": "DFind %s"}[t[0]] % ((t[1:],) if t[1:] else ())
                                    for t in probe.split(";")) + "]"
        header = HEADER + "Definition the_probe : list (dop (list N)) := %s.\n" % probe_term
        bad = vlib.run_cases(ctx, "dsu-exhaustive", header, lines, per_shard=40, fn="check_gcase the_probe", timeout=600)
        ctx.log("dsu-exhaustive: evaluated in Coq, %d prefixes with a non-zero code" % len(bad))
        st = collections.Counter()
        outcome = collections.Counter()
        nontrivial = total = 0
        sample = 1 if quick else 7
        for gi, ((m, path), alts) in enumerate(groups.items()):
            total += len(alts)
            if gi % sample == 0:
                for alt in alts:
                    if dsu_stats((path + ";" if path else "") + alt + ";" + probe, st):
                        nontrivial += 1
        viol, disagreements = [], []
        for gi, code in bad:
            m, path = keys[gi]
            if code < 64:
                codes = [(None, code)]
            else:
                code //= 64
                codes = []
                for alt in groups[keys[gi]]:
                    codes.append((alt, code % 64))
                    code //= 64
            for alt, c in codes:
                if c == 0:
                    continue
                outcome[c] += 1
                seq = path if alt is None else (path + ";" if path else "") + alt + ";" + probe
                line = "%s %s" % (m, seq)
                if c >= 30:
                    viol.append((len(line), "C19:K-reinsert", line, c - 20))
                elif c >= 10:
                    viol.append((len(line), "C19:dsu:%d:%s" % (c, line[:80]), line, c))
                else:
                    disagreements.append("%s: %s" % (line[:200], DCODES.get(c, c)))
        outcome[0] = total - sum(outcome.values())
        report(viol, "dsu", DCODES, "dsu", "check_case")
        ctx.oblige("correspondence:dsu-exhaustive", "correspondence", not disagreements,
                   "%d disagreements; first: %s" % (len(disagreements), "\n".join(disagreements[:5])))
        cov["dsu-exhaustive"] = {"evaluations": total, "distinct_nontrivial": nontrivial * sample,
                                 "distinct_nontrivial_note": "counted on every %d-th prefix and scaled" % sample if sample > 1 else "counted on all",
                                 "prefixes": len(keys), "measured_on_sample_1_in": sample, "measured": dict(st),
                                 "monoids": dict(collections.Counter(m for m, _ in keys)),
                                 "check_codes": {str(c): n for c, n in sorted(outcome.items())}}

    if groups:
        group_suite()
    suite("dsu", dsu_in, "dsu", "check_case", DCODES, dsu_stats, True)
    suite("vecmap", vec_in, "vecmap", "check_vcase", VCODES, vec_stats, False)
    cov["evaluations"] = sum(cov.get(n, {}).get("evaluations", 0) for n in ("dsu-exhaustive", "dsu", "vecmap"))
    cov["distinct_nontrivial"] = sum(cov.get(n, {}).get("distinct_nontrivial", 0) for n in ("dsu-exhaustive", "dsu", "vecmap"))
    cov["traces_validated_against_impl"] = cov["evaluations"]
    cov["exhaustive"] = True
    cov["exhaustive_note"] = ("DisjointSet: every history of up to %d operations over the 38-operation alphabet on 4 elements "
                              "(state-merged), both monoids; VectorMap: every insert/overwrite/remove history of up to %d "
                              "operations over 3 keys, 2 values" % ((3, 3) if quick else (6, 5)))
    samples = [k for k, c in dsu_in.items() if c.startswith("random")][:2] + list(dsu_in.keys())[40:42] + list(vec_in.keys())[100:102]
    return vlib.finish(ctx, rule="inputs are distinct history lines (dict keys). dsu non-trivial = the history merges two "
                       "different sets at least once and has a data operation; vecmap non-trivial = the history overwrites a "
                       "present key or removes an absent one. `measured` counts per-operation events over all histories.",
                       samples=samples)
