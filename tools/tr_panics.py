"""T8: inventory of panic-capable sites, from the MIR of the library as it is NOW
(`RUSTC_BOOTSTRAP=1 cargo rustc --lib -- -Zunpretty=mir`, offline, ~10 s), grouped by function and
compared with the committed registry panic_registry.json: a site that is not registered is a broken
obligation of C01.  -> coq/gen/PanicSites.v + build/panic_sites.json"""
import collections
import json
import os
import re
import subprocess

from translate import HEADER, write_if_changed

KINDS = [
    ("overflow", re.compile(r'assert\(.*"attempt to (compute|negate|shift)')),
    ("div_zero", re.compile(r'assert\(.*"attempt to (divide|calculate the remainder)')),
    ("bounds", re.compile(r'assert\(.*"index out of bounds')),
    ("panic", re.compile(r"core::panicking::(panic|panic_fmt|panic_explicit|unreachable_display|panic_nounwind)\b|std::rt::begin_panic|core::panicking::panic_const")),
    ("assert_failed", re.compile(r"core::panicking::assert_failed")),
    ("unwrap", re.compile(r"(Option|Result)::<[^(]*>::unwrap\(")),
    ("expect", re.compile(r"(Option|Result)::<[^(]*>::expect\(")),
    ("index", re.compile(r"as (std::ops::)?Index(Mut)?<[^>]*>>::index(_mut)?\(|::index\(.*SliceIndex|core::slice::index::")),
]


_FN_INDEX = {}
_REPO = ["/repo"]
# free functions that share their name with a method elsewhere
AMBIGUOUS = {"disassemble": "src/disassembly/disassembler.rs", "unify": "src/tc/unification.rs"}


def build_fn_index(repo):
    """free function / constant name -> the source files defining it"""
    idx = collections.defaultdict(set)
    for d, _, fs in os.walk(os.path.join(repo, "src")):
        for f in fs:
            if f.endswith(".rs"):
                rel = os.path.relpath(os.path.join(d, f), repo)
                src = open(os.path.join(d, f)).read()
                for m in re.finditer(r"\b(?:fn|const|static)\s+(\w+)", src):
                    idx[m.group(1)].add(rel)
    _REPO[0] = repo
    _FN_INDEX.clear()
    _FN_INDEX.update(idx)


def fn_key(header):
    """a key for a MIR function that survives line shifts: file + item path without source positions"""
    name = header.split("(", 1)[0]
    name = re.sub(r"^(fn|const|static|promoted\[\d+\] in) ", "", name).strip()
    name = re.sub(r":\s*[\w<>:&\[\] ]+ = \{?$", "", name).strip()
    files = re.findall(r"(src/[\w/]+\.rs)", header)
    if not files:
        first = re.split(r"::|<", name)[0]
        cands = _FN_INDEX.get(first) or _FN_INDEX.get(name.split("::")[-1]) or set()
        if len(cands) == 1:
            files = list(cands)
        else:
            # a module path (tc::unification::merge) or a free function that shares its name with a method
            parts = name.split("::")
            for k in range(len(parts) - 1, 0, -1):
                for cand in ("src/" + "/".join(parts[:k]) + ".rs", "src/" + "/".join(parts[:k]) + "/mod.rs"):
                    if os.path.exists(os.path.join(_REPO[0], cand)):
                        files = [cand]
                        break
                if files:
                    break
            if not files:
                files = [AMBIGUOUS.get(first, "?")]
    name = re.sub(r"<impl at [^>]*>", "<impl>", name)
    name = re.sub(r"\{closure@[^}]*\}", "{closure}", name)
    name = re.sub(r"\{closure#\d+\}", "{closure}", name)
    name = re.sub(r"\{constant#\d+\}", "{constant}", name)
    return (files[0] if files else "?") + " " + name


def inventory(repo, build):
    build_fn_index(repo)
    os.makedirs(os.path.join(build, "mir"), exist_ok=True)
    env = dict(os.environ, RUSTC_BOOTSTRAP="1", CARGO_TARGET_DIR=os.path.join(build, "mir-target"), CARGO_NET_OFFLINE="true")
    p = subprocess.run(["cargo", "rustc", "--lib", "--offline", "--", "-Zunpretty=mir"], cwd=repo, env=env,
                       stdout=subprocess.PIPE, stderr=subprocess.PIPE, text=True, timeout=900)
    if p.returncode != 0:
        raise RuntimeError("MIR dump failed: " + p.stderr[-600:])
    sites = collections.OrderedDict()
    cur = None
    for line in p.stdout.split("\n"):
        if line and not line.startswith(" ") and not line.startswith("}") and not line.startswith("//") and line.rstrip().endswith("{"):
            cur = fn_key(line)
            continue
        if cur is None:
            continue
        for kind, rx in KINDS:
            if rx.search(line):
                sites.setdefault(cur, collections.Counter())[kind] += 1
                break
    return sites


def classify(key):
    """default status of the sites of a function, by where it lives (the registry can override per function)"""
    f = key.split(" ")[0]
    name = key.split(" ", 1)[1]
    if re.search(r"::fmt$|<impl>::fmt", name) or "::fmt" in name:
        return "outside", "formatting (Debug/Display); not on the analysis path"
    if f == "src/constant.rs" or name.startswith("constant::"):
        return "unreachable", "compile-time evaluated constant"
    table = [
        ("src/disassembly/", "modelled", "Disasm.v: C10_total (try_from returns Ok, incl. the re-encoding assertion) for every non-empty byte string"),
        ("src/opcode/", "modelled", "VM.v micro-programs (T9) + hand-written irregular opcodes; vm correspondence suite; usize arithmetic is saturating/min-bounded after the F7 repair"),
        ("src/vm/value/known.rs", "modelled", "KnownWord.v: C09 fold_ops_no_panic for all 256-bit operands"),
        ("src/vm/value/mod.rs", "modelled", "SizedVal.v: C18_child_size_bounded (size sums cannot wrap for limited children); Fold.v"),
        ("src/vm/", "modelled", "VM.v: stack indices guarded by check_frame_at, gas bounded by C03_gas_stop, poll interval >= 1 by valid_config; vm correspondence suite"),
        ("src/data/", "modelled", "VectorMap.v / DisjointSet.v: C19_vecmap_refines / C19_dsu_refines (no panic, fuel sufficient)"),
        ("src/tc/lift/", "modelled", "lifting-pass models: packing_no_panic / pass correspondence suites"),
        ("src/tc/rule/", "modelled", "Rules.v: rules_no_panic (saturating arithmetic after the F7 repair)"),
        ("src/tc/state/", "modelled", "Register.v: unwrap on the inference table is guarded by registration (every variable is inserted when created)"),
        ("src/tc/unification.rs", "modelled", "Merge.v / Unify.v: merge's Equal panics are unreachable from unify"),
        ("src/tc/abi.rs", "outside", "serde derive"),
        ("src/tc/", "modelled", "Abi.v / TypeChecker staging: expect/unwrap guarded by registration"),
        ("src/layout.rs", "modelled", "Layout.v"),
        ("src/utility.rs", "outside", "serde glue for U256 (C20 models the codec)"),
        ("src/extractor/", "unreachable", "expect on a closure that cannot return Err"),
        ("src/error/", "outside", "error plumbing"),
        ("src/watchdog.rs", "outside", "watchdog implementations"),
        ("src/verif.rs", "outside", "verification hooks (cfg-guarded)"),
    ]
    for pre, st, why in table:
        if f.startswith(pre):
            return st, why
    return None, None


def step_panics(repo, out, consts):
    build = os.path.join(os.path.dirname(os.path.dirname(os.path.abspath(out))), "build")
    root = os.path.dirname(os.path.dirname(os.path.abspath(out)))
    sites = inventory(repo, build)
    reg_path = os.path.join(root, "panic_registry.json")
    registry = json.load(open(reg_path)) if os.path.exists(reg_path) else {"functions": {}}
    problems = []
    rows = []
    totals = collections.Counter()
    for key, counts in sites.items():
        st, why = classify(key)
        reg = registry["functions"].get(key)
        for kind, n in counts.items():
            allowed = (reg or {}).get(kind, 0)
            if reg is None:
                problems.append("unregistered function with panic-capable sites: %s (%s x%d)" % (key, kind, n))
            elif n > allowed:
                problems.append("new panic-capable site in %s: %s %d > registered %d" % (key, kind, n, allowed))
            if st is None:
                problems.append("no classification for %s" % key)
            totals[(st or "unclassified", kind)] += n
            rows.append((key, kind, n, st or "unclassified"))
    json.dump({"sites": [{"function": k, "kind": kd, "count": n, "status": st} for k, kd, n, st in rows],
               "totals": {"%s/%s" % k: v for k, v in totals.items()}},
              open(os.path.join(build, "panic_sites.json"), "w"), indent=1)
    s = HEADER + "From Coq Require Import List NArith String.\nImport ListNotations.\nOpen Scope N_scope.\nOpen Scope string_scope.\n"
    s += "(* number of panic-capable MIR sites by status and kind, on this run *)\n"
    s += "Definition panic_site_totals : list (string * string * N) := [\n  " + ";\n  ".join(
        '("%s", "%s", %d)' % (k[0], k[1], v) for k, v in sorted(totals.items())) + "\n].\n"
    s += "Definition unclassified_sites : N := %d.\n" % sum(v for k, v in totals.items() if k[0] == "unclassified")
    write_if_changed(os.path.join(out, "PanicSites.v"), s)
    return problems[:40], {"functions": len(sites), "sites": sum(sum(c.values()) for c in sites.values())}


def write_registry(repo, root):
    """(maintenance) regenerate panic_registry.json from the current tree"""
    sites = inventory(repo, os.path.join(root, "build"))
    reg = {"comment": "Committed by hand (generated once with tools/tr_panics.py --write-registry, then reviewed). Per function: how many "
                      "panic-capable MIR sites of each kind are accounted for. The status/justification of a function's sites is given by "
                      "tools/tr_panics.classify().", "functions": {k: dict(c) for k, c in sites.items()}}
    json.dump(reg, open(os.path.join(root, "panic_registry.json"), "w"), indent=1, sort_keys=True)
    return reg


steps = [("T8-panic-site-inventory", step_panics, {"C01"})]

if __name__ == "__main__":
    import sys
    root = os.path.dirname(os.path.dirname(os.path.abspath(__file__)))
    if "--write-registry" in sys.argv:
        r = write_registry(os.environ.get("VERIF_REPO", "/repo"), root)
        print(len(r["functions"]), "functions")
