#!/usr/bin/env python3
"""Regenerates MANIFEST.json from the MANIFEST dict of every tools/p_cXX.py."""
import importlib
import json
import os
import sys

HERE = os.path.dirname(os.path.abspath(__file__))
ROOT = os.path.dirname(HERE)
sys.path.insert(0, HERE)

props = [json.loads(l) for l in open(os.path.join(ROOT, "properties.jsonl"))]
checks, na, claimed = [], [], []
for p in props:
    i = p["id"]
    try:
        mod = importlib.import_module("p_" + i.lower())
        m = mod.MANIFEST
    except (ImportError, AttributeError):
        na.append({"property_id": i, "reason": "check not built yet (work in progress; design in DESIGN.md section 3 %s)" % i})
        continue
    if m.get("not_applicable"):
        na.append({"property_id": i, "reason": m["not_applicable"]})
        continue
    claimed.append(i)
    checks.append({
        "property_id": i,
        "quick_cmd": "./check %s --tier quick" % i,
        "thorough_cmd": "./check %s --tier thorough" % i,
        "evidence_file": "/verif/evidence/%s.json" % i,
        "replay_cmd_template": "./check %s --replay {path}" % i,
        "engine": "coq-model",
        "level_claimed": {"category": m.get("category", "proof"), "text": m["text"], "design_ref": "DESIGN.md section 3, " + i},
        "level_note": m["note"],
        "technique": m["technique"],
    })
hooks_commits = []
hp = os.path.join(ROOT, "hooks_commits.txt")
if os.path.exists(hp):
    hooks_commits = [l.split()[0] for l in open(hp) if l.strip() and not l.startswith("#")]
man = {
    "version": 1,
    "setup_cmd": "./setup.sh",
    "hooks": {
        "guard": "--cfg smlxl_storage_layout_extractor_verif",
        "enable": "RUSTFLAGS=\"--cfg smlxl_storage_layout_extractor_verif\" (set by tools/vlib.py / setup.sh when building /verif/harness against /repo's working tree)",
        "baseline_off_cmd": "cd /repo && cargo test --workspace --no-fail-fast --offline",
        "source_commits": hooks_commits,
        "add_only": True,
    },
    "engines": [{
        "name": "coq-model", "path": "/verif/coq", "serves_properties": claimed,
        "kind_free_text": "Coq 8.16.1 development (model + theorems, axiom-free); table-like parts regenerated from /repo by "
                          "tools/translate.py on every run; hand-written parts tied to the code by correspondence runs through "
                          "/verif/harness whose cases are evaluated inside Coq (vm_compute)"}],
    "checks": checks,
    "notes": "See DESIGN.md. ./check Cxx follows the decision rule of DESIGN.md 2.5; known findings are in known_findings.json.",
    "not_applicable": na,
}
json.dump(man, open(os.path.join(ROOT, "MANIFEST.json"), "w"), indent=1)
print("claimed:", " ".join(claimed), "| not claimed:", " ".join(x["property_id"] for x in na))
