"""T7 (size anchors, property C18): the few expressions in src/vm/value/mod.rs and src/vm/mod.rs whose exact
shape decides `recorded size = node count` and `at most value_size_limit nodes`:

  * RSV::new            -- `let size = data.child_size() + 1`, the comparison `size > limit`, the replacement
                           payload `RSVD::new_value()` and the size recorded for it
  * TCSV::new, SymbolicValue::constant_fold, SymbolicValue::transform_data -- the recomputation
                           `let size = data.child_size() + 1` and that this `size` is what is stored
  * SVD::constant_fold  -- `self.clone().transform(constant_folder)` and, per folder arm, which constructor is
                           rebuilt when the operands are not all constant
  * PackedSpan::transform, SVD::new_value, ValueBuilder (all four builders hand `Some(config.value_size_limit)`)

Every recognised text is mapped through a small allow-list to a Gallina term in coq/gen/SizeAnchors.v.  The
allow-lists contain the repaired AND the originally pinned (defective) texts and a few near misses
(`>=`, a forgotten `+ 1`, `self.size`), so that such an edit selects the defective term and the PROOF fails with
a computable witness; text that is not on a list is a problem string (broken translation obligation).

It also writes harness/src/gen_ssv.rs (printer of a value WITH the size recorded at every node, children in
declaration order, and a tag-name function), generated from the same enum as gen_sv.rs."""
import os
import re

from translate import HEADER, match_brace, norm, read, write_if_changed
import tr_valuesig


def impl_block(src, head_regex):
    m = re.search(head_regex, src)
    if not m:
        return None
    b = src.index("{", m.end() - 1)
    return src[b + 1:match_brace(src, b) - 1]


def fn_body(block, name_regex):
    """body of `pub fn <name>(...) -> ... {` inside block (handles nested parens/generics in the signature)"""
    m = re.search(r"pub fn %s\s*(<[^>]*>)?\s*\(" % name_regex, block)
    if not m:
        return None
    p = block.index("(", m.end() - 1)
    e = match_brace(block, p, "(", ")")
    b = block.index("{", e)
    return block[b + 1:match_brace(block, b) - 1]


# size expression  ->  Gallina over (old : N) (cs : N)
SIZE_EXPRS = {
    "data.child_size()+1": "cs + 1",
    "1+data.child_size()": "1 + cs",
    # near misses / defects: selecting them makes the proofs fail
    "data.child_size()": "cs",
    "data.child_size()+2": "cs + 2",
    "self.size": "old",
    "self.size()": "old",
    "self.size+1": "old + 1",
}
CMPS = {">": "N.ltb limit size", ">=": "N.leb limit size", "<": "N.ltb size limit", "<=": "N.leb size limit",
        "==": "N.eqb size limit"}
CULL_SIZES = {"1": "1", "size": "size", "0": "0", "limit": "limit"}

RSV_CULL_FORMS = [
    # repaired
    (re.compile(r"let\(data,size\)=match value_size_limit\{Some\(limit\)if size(>=|<=|==|>|<)limit=>"
                r"\(RSVD::new_value\(\),(\w+)\),_=>\(data,size\)\};"), lambda m: (m.group(1), m.group(2))),
    # pinned (ccf401a): the oversized size is kept
    (re.compile(r"let data=if let Some\(limit\)=value_size_limit\{if size(>=|<=|==|>|<)limit\{RSVD::new_value\(\)\}"
                r"else\{data\}\}else\{data\};"), lambda m: (m.group(1), "size")),
]

UNLIMITED_SITES = {
    "src/vm/state/storage.rs": ["RSV::new(v.instruction_pointer(),RSVD::StorageWrite{key:k.clone(),value:v},provenance,None)"],
    "src/vm/state/memory.rs": ["RSV::new(instruction_pointer,RSVD::Concat{values},Provenance::Synthetic,None)",
                               "RSV::new_known_value(0,KnownWord::zero(),Provenance::UninitializedMemory,None)"],
}

STRUCT_TAILS = {
    "rsv": ["Arc::new(Self{instruction_pointer,provenance,data,aux_data:(),size})"],
    "tcsv": ["Arc::new(Self{instruction_pointer,provenance,data,aux_data,size})"],
    "fold": ["Arc::new(Self{instruction_pointer,provenance,data,aux_data,size})"],
    "transform": ["Arc::new(Self{instruction_pointer:self.instruction_pointer,data,provenance:self.provenance,"
                  "aux_data:self.aux_data.clone(),size})"],
}


def size_stmt(body, problems, where):
    m = re.search(r"let size=([^;]+);", body)
    if not m:
        problems.append("%s: no `let size = ...;`" % where)
        return "cs + 1 (* unrecognised *)", body
    e = m.group(1)
    if e not in SIZE_EXPRS:
        problems.append("%s: size expression not recognised: %s" % (where, e))
        return "cs + 1 (* unrecognised *)", body[:m.start()] + body[m.end():]
    return SIZE_EXPRS[e], body[:m.start()] + body[m.end():]


def split_fields(s):
    parts, cur, depth = [], "", 0
    for c in s:
        if c in "({[":
            depth += 1
        elif c in ")}]":
            depth -= 1
        if c == "," and depth == 0:
            parts.append(cur)
            cur = ""
        else:
            cur += c
    if cur:
        parts.append(cur)
    return parts


def folder_arms(src, problems):
    """arms of `fn constant_folder`: {Tag: rebuilt Tag}; strict template per arm"""
    m = re.search(r"fn constant_folder<AuxData>\(data:&SVD<AuxData>\)->Option<SVD<AuxData>>where AuxData:Clone\+PartialEq,?\{", src)
    if not m:
        problems.append("constant_folder: signature not recognised")
        return {}
    body = src[m.end():match_brace(src, m.end() - 1) - 1]
    mm = re.match(r"match data\.clone\(\)\{", body)
    if not mm:
        problems.append("constant_folder: body does not start with `match data.clone()`")
        return {}
    arms_src = body[mm.end():match_brace(body, mm.end() - 1) - 1]
    arms = {}
    i = 0
    while i < len(arms_src):
        if arms_src.startswith("_=>None", i):
            rest = arms_src[i + len("_=>None"):]
            if rest not in ("", ","):
                problems.append("constant_folder: text after the default arm: %s" % rest[:60])
            break
        m = re.compile(r"SVD::(\w+)\{([\w,]*)\}=>\{").match(arms_src, i)
        if not m:
            problems.append("constant_folder: arm not recognised at: %s" % arms_src[i:i + 80])
            break
        tag, binds = m.group(1), [b for b in m.group(2).split(",") if b]
        e = match_brace(arms_src, m.end() - 1)
        abody = arms_src[m.end():e - 1]
        i = e + (1 if arms_src[e:e + 1] == "," else 0)
        # every bound field is transformed by the folder itself
        seen = []
        while True:
            lm = re.match(r"let (\w+)=(\w+)\.transform_data\(constant_folder\);", abody)
            if not lm:
                break
            if lm.group(1) != lm.group(2):
                problems.append("constant_folder %s: `let %s = %s.transform_data`" % (tag, lm.group(1), lm.group(2)))
            seen.append(lm.group(1))
            abody = abody[lm.end():]
        if sorted(seen) != sorted(binds):
            problems.append("constant_folder %s: fields transformed %s != fields bound %s" % (tag, seen, binds))
        sm = re.fullmatch(r"Some\(match ?(.+?)\{(.+)\}\)", abody)
        if not sm:
            problems.append("constant_folder %s: result not recognised: %s" % (tag, abody[:100]))
            continue
        scrut, marms = sm.group(1), split_fields(sm.group(2))
        words = re.findall(r"(\w+)\.as_word\(\)", scrut)
        if sorted(words) != sorted(binds) or not re.fullmatch(r"\(?(\w+\.as_word\(\),?)+\)?", scrut):
            problems.append("constant_folder %s: scrutinee not recognised: %s" % (tag, scrut))
        if len(marms) != 2:
            problems.append("constant_folder %s: expected two inner arms: %s" % (tag, marms))
            continue
        k = re.fullmatch(r"\(?(Some\(\w+\),?)+\)?=>SVD::new_known\(.+\)", marms[0])
        if not k or marms[0].count("Some(") != len(binds):
            problems.append("constant_folder %s: constant arm not recognised: %s" % (tag, marms[0]))
        fb = re.fullmatch(r"_=>SVD::(\w+)\{([\w,]*)\}", marms[1])
        if not fb:
            problems.append("constant_folder %s: fall-back arm not recognised: %s" % (tag, marms[1]))
            continue
        if sorted(x for x in fb.group(2).split(",") if x) != sorted(binds):
            problems.append("constant_folder %s: fall-back rebuilds with fields %s" % (tag, fb.group(2)))
        arms[tag] = fb.group(1)
    return arms


def step_sizeanchors(repo, out, consts):
    problems = []
    src = norm(read(repo, "src/vm/value/mod.rs"))
    info = {}

    # ---- RSV::new
    rsv = impl_block(src, r"impl RSV\{")
    body = fn_body(rsv, "new") if rsv else None
    rsv_size, cmp_term, cull_size = "cs + 1 (* unrecognised *)", "N.ltb limit size (* unrecognised *)", "1 (* unrecognised *)"
    if body is None:
        problems.append("RSV::new not found")
    else:
        rsv_size, rest = size_stmt(body, problems, "RSV::new")
        hit = None
        for rx, f in RSV_CULL_FORMS:
            m = rx.search(rest)
            if m:
                hit = f(m)
                rest = rest[:m.start()] + rest[m.end():]
                break
        if not hit:
            problems.append("RSV::new: size-limit check not recognised: %s" % rest[:300])
        else:
            op, cs = hit
            cmp_term = CMPS[op]
            if cs not in CULL_SIZES:
                problems.append("RSV::new: size recorded for the replacement not recognised: %s" % cs)
            else:
                cull_size = CULL_SIZES[cs]
            info["rsv_cull"] = "size%slimit -> (new_value, %s)" % (op, cs)
        if rest not in STRUCT_TAILS["rsv"]:
            problems.append("RSV::new: remaining text not recognised: %s" % rest[:300])
        # the wrappers forward their limit
        for w, pat in (("new_from_execution", r"Self::new\(instruction_pointer,data,Provenance::Execution,value_size_limit\)"),
                       ("new_known_value", r"Self::new\(instruction_pointer,SymbolicValueData::KnownData\{value:value_data\},provenance,value_size_limit\)"),
                       ("new_synthetic", r"Self::new\(instruction_pointer,data,Provenance::Synthetic,None\)"),
                       ("new_value", r"Self::new\(instruction_pointer,SymbolicValueData::new_value\(\),provenance,None\)")):
            wb = fn_body(rsv, w)
            if wb is None or not re.fullmatch(pat, wb):
                problems.append("RSV::%s body not recognised: %s" % (w, wb))

    # ---- TCSV::new
    tcsv = impl_block(src, r"impl TCSV\{")
    body = fn_body(tcsv, "new") if tcsv else None
    tcsv_size = "cs + 1 (* unrecognised *)"
    if body is None:
        problems.append("TCSV::new not found")
    else:
        tcsv_size, rest = size_stmt(body, problems, "TCSV::new")
        if rest not in STRUCT_TAILS["tcsv"]:
            problems.append("TCSV::new: remaining text not recognised: %s" % rest[:300])

    # ---- SymbolicValue::{constant_fold, transform_data}
    sv = impl_block(src, r"impl<AuxData>SymbolicValue<AuxData>where AuxData:Clone\+PartialEq,?\{")
    fold_size = trans_size = "cs + 1 (* unrecognised *)"
    if sv is None:
        problems.append("impl SymbolicValue not found")
    else:
        body = fn_body(sv, "constant_fold")
        if body is None:
            problems.append("SymbolicValue::constant_fold not found")
        else:
            fold_size, rest = size_stmt(body, problems, "SymbolicValue::constant_fold")
            want = ("let data=self.data.constant_fold();let instruction_pointer=self.instruction_pointer;"
                    "let provenance=self.provenance;let aux_data=self.aux_data.clone();" + STRUCT_TAILS["fold"][0])
            if rest != want:
                problems.append("SymbolicValue::constant_fold: remaining text not recognised: %s" % rest[:300])
        body = fn_body(sv, "transform_data")
        if body is None:
            problems.append("SymbolicValue::transform_data not found")
        else:
            trans_size, rest = size_stmt(body, problems, "SymbolicValue::transform_data")
            if rest != "let data=self.data.transform(transform);" + STRUCT_TAILS["transform"][0]:
                problems.append("SymbolicValue::transform_data: remaining text not recognised: %s" % rest[:300])
        for g, pat in (("size", "self.size"), ("children", "self.data.children()")):
            gb = fn_body(sv, g)
            if gb != pat:
                problems.append("SymbolicValue::%s body not recognised: %s" % (g, gb))

    # ---- SVD::constant_fold = transform(constant_folder); the transform() head
    arms = folder_arms(src, problems)
    m = re.search(r"pub fn constant_fold\(&self\)->Self\{", src)
    if m:
        b = src[m.end():match_brace(src, m.end() - 1) - 1]
        if not b.endswith("self.clone().transform(constant_folder)"):
            problems.append("SVD::constant_fold does not end in self.clone().transform(constant_folder)")
    m = re.search(r"pub fn transform\(&self,transform:impl Fn\(&Self\)->Option<Self>\+Copy\)->Self\{", src)
    if not m:
        problems.append("SVD::transform signature not recognised")
    else:
        b = src[m.end():match_brace(src, m.end() - 1) - 1]
        if not b.startswith("let inner_self=self.clone();match transform(&inner_self){Some(data)=>data,None=>match self{"):
            problems.append("SVD::transform head not recognised: %s" % b[:120])

    # ---- PackedSpan::transform, SVD::new_value
    m = re.search(r"pub fn transform\(&self,transform:impl Fn\(&SVD<AuxData>\)->Option<SVD<AuxData>>\+Copy\)->Self\{", src)
    if not m:
        problems.append("PackedSpan::transform signature not recognised")
    else:
        b = src[m.end():match_brace(src, m.end() - 1) - 1]
        if b != "let new_data=self.value.transform_data(transform);Self{offset:self.offset,size:self.size,value:new_data}":
            problems.append("PackedSpan::transform body not recognised: %s" % b)
    svd0 = impl_block(src, r"impl<AuxData>SymbolicValueData<AuxData>\{")
    nv = fn_body(svd0, "new_value") if svd0 else None
    hook = "#[cfg(smlxl_storage_layout_extractor_verif)]if let Some(id)=crate::verif::next_uuid(){return SymbolicValueData::Value{id};}"
    if nv is not None and nv.startswith(hook):     # guarded hook H2: deterministic identities, same shape
        nv = nv[len(hook):]
    if nv != "let id=Uuid::new_v4();SymbolicValueData::Value{id}":
        problems.append("SVD::new_value body not recognised: %s" % nv)

    # ---- ValueBuilder: every building method hands Some(config.value_size_limit) to the constructor
    vsrc = norm(read(repo, "src/vm/mod.rs"))
    vb = impl_block(vsrc, r"impl ValueBuilder\{")
    builder_ok = True
    wants = {
        "symbolic": "RSV::new(instruction_pointer,data,provenance,Some(self.config.value_size_limit))",
        "symbolic_exec": "RSV::new_from_execution(instruction_pointer,data,Some(self.config.value_size_limit))",
        "known": "RSV::new_known_value(instruction_pointer,value_data,provenance,Some(self.config.value_size_limit))",
        "known_exec": "RSV::new_known_value(instruction_pointer,value_data,Provenance::Execution,Some(self.config.value_size_limit))",
        "value": "RSV::new_value(instruction_pointer,provenance)",
    }
    for w, want in wants.items():
        wb = fn_body(vb, w) if vb else None
        if wb != want:
            builder_ok = False
            problems.append("ValueBuilder::%s body not recognised: %s" % (w, wb))

    # ---- allocation sites of the VM proper (src/vm/state, src/opcode, src/vm/mod.rs): every call of an RSV
    # constructor that passes `None` as its limit must be on this list (values that are not produced by an
    # instruction at top level); SLOAD hands the configured limit to Storage::load_with_limit, which hands it
    # to both values it allocates
    sites_ok = True
    seen_unlimited = []
    files = ["src/vm/mod.rs"] + ["src/vm/state/" + f for f in sorted(os.listdir(os.path.join(repo, "src/vm/state"))) if f.endswith(".rs")] \
        + ["src/opcode/" + f for f in sorted(os.listdir(os.path.join(repo, "src/opcode"))) if f.endswith(".rs")]
    limited_calls = 0
    for rel in files:
        raw = read(repo, rel)
        cut = raw.find("#[cfg(test)]")
        fsrc = norm(raw[:cut] if cut >= 0 else raw)
        for m in re.finditer(r"\b(?:RSV|SymbolicValue|RuntimeBoxedVal)::(new|new_known_value|new_from_execution|new_synthetic)\(", fsrc):
            if rel == "src/vm/mod.rs" and "impl ValueBuilder" in fsrc[:m.start()]:
                continue      # the builder itself, recognised above
            e = match_brace(fsrc, m.end() - 1, "(", ")")
            call = fsrc[m.start():e]
            if m.group(1) == "new_synthetic" or call.endswith(",None)"):
                seen_unlimited.append((rel, call))
            else:
                limited_calls += 1
                if not (call.endswith(",value_size_limit)") and rel == "src/vm/state/storage.rs"):
                    problems.append("%s: constructor call with an unrecognised limit argument: %s" % (rel, call[:160]))
                    sites_ok = False
    for rel, call in seen_unlimited:
        if call not in UNLIMITED_SITES.get(rel, []):
            problems.append("%s: allocation without a size limit that is not on the allow-list: %s" % (rel, call[:200]))
            sites_ok = False
    ssrc = norm(read(repo, "src/vm/state/storage.rs"))
    ld = fn_body(ssrc, "load")
    if ld != "self.load_with_limit(key,None)":
        problems.append("Storage::load body not recognised: %s" % (ld or "")[:120])
    lw = fn_body(ssrc, "load_with_limit")
    if lw is None or lw.count(",value_size_limit)") != 2 or "RSVD::UnwrittenStorageValue{key:key.clone()},Provenance::NonWrittenStorage,value_size_limit)" not in lw \
            or not lw.endswith("most_recent.provenance(),value_size_limit)"):
        problems.append("Storage::load_with_limit: the two allocations do not both take value_size_limit: %s" % (lw or "missing")[:200])
        sites_ok = False
    osrc = norm(read(repo, "src/opcode/memory.rs"))
    im = re.search(r"impl Opcode for SLoad\{", osrc)
    sl = osrc[im.end():match_brace(osrc, im.end() - 1)] if im else ""
    if "let value_size_limit=vm.config().value_size_limit;" not in sl or "storage.load_with_limit(&key,Some(value_size_limit))" not in sl \
            or "storage.load(" in sl:
        problems.append("SLoad::execute does not pass Some(config.value_size_limit) to Storage::load_with_limit")
        sites_ok = False
    for rel in files:
        raw = read(repo, rel)
        cut = raw.find("#[cfg(test)]")
        fsrc = norm(raw[:cut] if cut >= 0 else raw)
        if re.search(r"\.load\(&", fsrc) and rel.startswith("src/opcode/") and "storage" in fsrc and re.search(r"storage(_mut\(\))?\.load\(", fsrc):
            problems.append("%s: calls Storage::load (no size limit)" % rel)
            sites_ok = False

    names = [n for n, _ in tr_valuesig.parse_enum(read(repo, "src/vm/value/mod.rs"))]
    for t, r in arms.items():
        if t not in names or r not in names:
            problems.append("constant_folder arm %s => %s names an unknown constructor" % (t, r))
    s = HEADER + "From Coq Require Import List NArith.\nFrom SLX Require Import gen.ValueSig.\nImport ListNotations.\nOpen Scope N_scope.\n\n"
    s += "(* `let size = ...` at the four places a SymbolicValue is allocated: as a function of the size recorded on\n"
    s += "   the value being rebuilt (old; 0 for the two constructors) and of data.child_size() (cs) *)\n"
    for nm, term in (("rsv_new_size", rsv_size), ("tcsv_new_size", tcsv_size), ("fold_size", fold_size), ("transform_size", trans_size)):
        s += "Definition %s (old cs : N) : N := %s.\n" % (nm, term)
    s += "\n(* RSV::new: the condition under which the payload is replaced by RSVD::new_value(), and the size recorded\n"
    s += "   on the replacement *)\n"
    s += "Definition cull_cond (size limit : N) : bool := %s.\n" % cmp_term
    s += "Definition cull_size (size limit : N) : N := %s.\n\n" % cull_size
    s += "(* constant_folder: the constructor each arm rebuilds when its operands are not all constant *)\n"
    s += "Definition fold_rebuild (t : tag) : option tag :=\n  match t with\n"
    for t, r in arms.items():
        if t in names and r in names:
            s += "  | T_%s => Some T_%s\n" % (t, r)
    s += "  | _ => None\n  end.\n\n"
    s += "(* every ValueBuilder method passes Some(config.value_size_limit) *)\n"
    s += "Definition builder_passes_limit : bool := %s.\n" % ("true" if builder_ok else "false")
    s += "(* SLOAD passes the limit; the only allocations without a limit in src/vm and src/opcode are the listed ones\n"
    s += "   (StorageWrite wrappers of stores_as_values, the Concat of Memory::load_slice, the zero word of fresh memory) *)\n"
    s += "Definition vm_sites_pass_limit : bool := %s.\n" % ("true" if sites_ok else "false")
    write_if_changed(os.path.join(out, "SizeAnchors.v"), s)
    gen_rust(repo, out)
    info.update({"unlimited_sites": len(seen_unlimited), "limited_calls_outside_builder": limited_calls, "folder_arms": len(arms), "rsv_new_size": rsv_size, "transform_size": trans_size})
    return problems, info


def gen_rust(repo, out):
    variants = tr_valuesig.parse_enum(read(repo, "src/vm/value/mod.rs"))
    r = "// GENERATED by tools/tr_sizeanchor.py from src/vm/value/mod.rs -- do not edit\n"
    r += "#![allow(dead_code, unused_variables, clippy::all)]\n"
    r += "use storage_layout_extractor::vm::value::{BoxedVal, SymbolicValue, SymbolicValueData as SVD};\n"
    r += "use crate::util::Ids;\n\n"
    r += "pub fn tag_name<A>(d: &SVD<A>) -> &'static str {\n    match d {\n"
    for name, fl in variants:
        r += "        SVD::%s%s => \"%s\",\n" % (name, " { .. }" if fl else "", name)
    r += "    }\n}\n\n"
    r += "/// (attributes, children in declaration order)\n"
    r += "pub fn parts<'a, A>(d: &'a SVD<A>, ids: &mut Ids) -> (Vec<String>, Vec<&'a BoxedVal<A>>) {\n"
    r += "    let mut attrs: Vec<String> = vec![];\n    let mut ch: Vec<&BoxedVal<A>> = vec![];\n    match d {\n"
    for name, fl in variants:
        if not fl:
            r += "        SVD::%s => {}\n" % name
            continue
        r += "        SVD::%s { %s } => {\n" % (name, ", ".join(fn for fn, _ in fl))
        for fn, ft in fl:
            k = tr_valuesig.KINDS.get(ft, "FUsize")
            if k == "FChild":
                r += "            ch.push(%s);\n" % fn
            elif k == "FChildren":
                r += "            ch.extend(%s.iter());\n" % fn
            elif k == "FId":
                r += "            attrs.push(ids.get(%s).to_string());\n" % fn
            elif k == "FWord":
                r += "            attrs.push(%s.value_le().to_string());\n" % fn
            elif k == "FUsize":
                r += "            attrs.push(%s.to_string());\n" % fn
            elif k == "FOptUsize":
                r += "            match %s { None => attrs.push(\"0\".into()), Some(p) => { attrs.push(\"1\".into()); attrs.push(p.to_string()); } }\n" % fn
            elif k == "FSpans":
                r += "            for sp in %s.iter() { attrs.push(sp.offset.to_string()); attrs.push(sp.size.to_string()); ch.push(&sp.value); }\n" % fn
        r += "        }\n"
    r += "    }\n    (attrs, ch)\n}\n\n"
    r += "/// `(SNode T_Tag [attrs] recorded_size [kids])`\n"
    r += "pub fn ssv_term<A: Clone + PartialEq>(v: &SymbolicValue<A>, ids: &mut Ids) -> String {\n"
    r += "    let (attrs, ch) = parts(v.data(), ids);\n"
    r += "    let kids: Vec<String> = ch.iter().map(|c| ssv_term(c, ids)).collect();\n"
    r += "    format!(\"(SNode T_{} [{}] {} [{}])\", tag_name(v.data()), attrs.join(\";\"), v.size(), kids.join(\";\"))\n}\n"
    hdir = os.path.join(os.path.dirname(os.path.dirname(os.path.abspath(out))), "harness", "src")
    if os.path.isdir(hdir):
        write_if_changed(os.path.join(hdir, "gen_ssv.rs"), r)


steps = [("T7-size-anchors", step_sizeanchors)]
