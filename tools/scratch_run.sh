#!/bin/sh
# scratch_run.sh <patch.diff> <property>...: the same as seeded_run.sh but against a scratch copy of /repo's HEAD
# (used while /repo itself is busy, e.g. during a long `vp run`); not the official run.
set -u
cd "$(dirname "$0")/.."
P=$1; shift
S=/tmp/sr_repo
rm -rf $S && mkdir -p $S && git -C /repo archive HEAD | tar -x -C $S
(cd $S && git init -q && git add -A >/dev/null && git -c user.name=b -c user.email=b@b commit -qm base && git apply "$P") || { echo "patch does not apply"; exit 2; }
for C in "$@"; do
  VERIF_REPO=$S ./check "$C" --tier quick > build/scratch_$C.log 2>&1
  echo "== $C rc=$?"; grep -E '^VIOLATION' build/scratch_$C.log | head -3; grep 'done:' build/scratch_$C.log | tail -1
done
rm -rf $S
git checkout -- evidence 2>/dev/null
