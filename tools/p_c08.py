"""C08 -- control flow is followed exactly as the EVM allows, and both branches are taken."""
import collections
import json

import gen
import vlib

MANIFEST = {
    "text": "Coq theorems over the VM model (every program, all limits, every folding function): a JUMP / JUMPI fork is only requested  One JUMP / JUMPI reached by several paths that bring different targets (two valid landings with different code behind them, bad targets of every kind) is part of the searched programs: the target is read from the stack on every execution."
            "for a target t such that the stack value constant-folds to exactly the word t (< 2^32, no truncation), t is inside the "
            "code and the entry at t is JUMPDEST; in a disassembled stream a JUMPDEST entry sits on a 0x5b byte that is not push data, "
            "which is proved equivalent to the reference EVM's own valid-destination analysis; a JUMPI with a valid target queues the "
            "jump-taken copy and continues (or is retired by a limit) -- both branches; STOP/RETURN/REVERT/SELFDESTRUCT/INVALID/"
            "unassigned bytes retire the thread. The subset/equality of executed offsets against the EVM control-flow graph is "
            "evaluated inside Coq by the reference EVM (both JUMPI outcomes) on the implementation's visit counters; the model is tied "
            "to the code by the VM correspondence run and the translated opcode bodies (T1/T9).",
    "note": "Both inclusions are theorems inside C07's guards. (1) 'executed offsets are reachable in the EVM CFG' along each path "
            "for threads whose steps satisfy the guards (C08_executed_offsets_reachable, a corollary of C07's path simulation). (2) The "
            "CONVERSE, 'no reachable code is skipped' (C08_reachable_state_executed / C08_reachable_offsets_executed / "
            "C08_code_51_impossible, proofs/VmExplore.v): if the model run ends with an empty queue and EVERY iteration satisfies "
            "step_guard2 (C07's guards, the thread not retired by the iteration/gas limit, and fork_guard: at a JUMPI the fork is not "
            "suppressed by the iteration or fork limit, and a target that does not validate cannot be taken by the reference EVM either; "
            "or the iteration is a JUMP neither machine can take, dead_jump_guard), "
            "then every state the reference EVM reaches with both JUMPI outcomes possible is shadowed by a thread -- its offset has a "
            "positive visit counter in a retired state and is not push data, or it is the JUMPDEST a JUMP lands on (stepped over by design "
            "of Jump::execute); stated also as the very predicate of code 51 (reach of SimCases.explore is in visited + SimCases.landings; "
            "explore is proved sound, landings complete). The hypotheses are evaluated inside Coq on every searched program (coverage: "
            "programs_inside_converse_theorem); outside them both halves are decided by the Coq-evaluated oracle on loop-free programs. "
            "C08_converse_refuted: outside the hypotheses the converse is false when a jump target is a constant of the path that does not "
            "constant-fold -- sstore(0,L); jumpi(sload(0),1): 600c600055600160005457005b600100 never executes offsets 12.. (the target is "
            "SLoad{0,12}; the real VM behaves the same).",
    "technique": "Coq proof of the jump-validation, fork and halting lemmas on a model with translated opcode bodies; reference-EVM "
                 "reachability evaluated inside Coq on the implementation's visit counters; differential correspondence",
}

CODES = {50: "an executed offset is not reachable in the EVM control-flow graph",
         51: "a reachable offset of loop-free code was not executed (nor a JUMP landing)", 52: "panic"}


def check(ctx):
    vlib.translate(ctx)
    vlib.prove(ctx, "props/C08.v", ["SimCases.vo", "SimGuardCases.vo"])
    hb = vlib.harness_bin(ctx)
    rng = ctx.rng
    bw = gen.boundary_words()
    progs = collections.OrderedDict()
    try:
        for l in open(vlib.ROOT + "/corpus/C08.txt"):
            l = l.split("#")[0].strip()
            if l:
                progs.setdefault(bytes.fromhex(l.split()[0]), "corpus")
    except FileNotFoundError:
        pass
    n = 900 if ctx.quick else 15000
    for code in gen.c08_programs(rng, bw, n):
        progs.setdefault(code, "jump-kinds")
    for code in gen.c07_programs(rng, bw, n // 5):
        progs.setdefault(code, "fragment")
    # one JUMP / JUMPI reached by several paths that bring different targets (valid ones with different code behind them,
    # bad ones of every kind): the target is read from the stack on EVERY execution
    for code in gen.trampoline_programs(rng, 200 if ctx.quick else 3000):
        progs.setdefault(code, "shared-trampoline")
    keys = list(progs.keys())
    if ctx.replay_in:
        keys = [bytes.fromhex(json.load(open(ctx.replay_in))["replay"]["code"])]
    cfg = (30000000, 10, 50, 250, 394, 1)
    if hb:
        lines = [gen.vm_line(c, cfg) for c in keys]
        ok, out, diag = vlib.run_harness_sharded(hb, ["vm"], lines)
        ctx.oblige("harness:vm", "correspondence", ok, diag)
        terms = ["mk_vcase %s %s (%s)" % (vlib.coq_bytes(c), gen.coq_config(cfg), l if l != "CHILD-DIED" else 'XPanic "child died"')
                 for c, l in zip(keys, out)]
        header = ("From Coq Require Import String.\nFrom SLX Require Import Base gen.ValueSig SymVal VM VmCases SimCases.\n"
                  "Open Scope string_scope. Open Scope N_scope.\n")
        per = min(150, max(1, len(terms) // 32 + 1))
        bad = vlib.run_cases(ctx, "visited-vs-cfg", header, terms, per_shard=per, fn="check_c08")
        explored = vlib.run_cases(ctx, "cfg-explored", header, terms, per_shard=per, fn="c08_explored")
        # which programs lie inside the hypotheses of the converse theorem (C08_reachable_offsets_executed): there code 51 is
        # excluded by proof (given the correspondence), elsewhere by the search
        header_g = ("From Coq Require Import String.\nFrom SLX Require Import Base gen.ValueSig SymVal VM VmCases SimGuardCases.\n"
                    "Open Scope string_scope. Open Scope N_scope.\n")
        inside = vlib.run_cases(ctx, "inside-converse-theorem", header_g, terms, per_shard=per, fn="c08_converse_stats")
        disagreements = []
        for idx, code in bad:
            c = keys[idx]
            if code >= 50:
                ctx.violate("C08:%d:%s" % (code, c.hex()[:48]), "%s: program %s" % (CODES.get(code), c.hex()[:160]),
                            {"code": c.hex(), "config": list(cfg), "meaning": CODES.get(code),
                             "how": "echo '<code> 30000000 10 50 250 394 1 100 -1' | build/harness-target/debug/slxh vm ; SimCases.explore"})
            else:
                disagreements.append("%s: model/implementation differ (code %s)" % (c.hex()[:100], code))
        ctx.oblige("correspondence:vm", "correspondence", not disagreements, "\n".join(disagreements[:10]))
        ctx.coverage.update({"evaluations": len(keys), "distinct_nontrivial": len(explored),
                             "offsets_in_reference_cfgs": sum(c - 1 for _, c in explored),
                             "programs_inside_converse_theorem": len(inside),
                             "offsets_in_reference_cfgs_inside_converse_theorem": sum(c - 1 for _, c in inside),
                             "traces_validated_against_impl": len(terms),
                             "input_classes": dict(collections.Counter(progs.values()))})
    return vlib.finish(ctx, rule="distinct loop-free programs with constant jump targets of every kind; non-trivial = the reference "
                       "EVM's control-flow exploration completed (no loop budget exhaustion, no instruction outside the oracle) so "
                       "both the subset and the equality were evaluated", samples=[c.hex() for c in keys[:3]])
