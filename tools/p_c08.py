"""C08 -- control flow is followed exactly as the EVM allows, and both branches are taken."""
import collections
import json

import gen
import vlib

MANIFEST = {
    "text": "Coq theorems over the VM model (every program, all limits, every folding function): a JUMP / JUMPI fork is only requested "
            "for a target t such that the stack value constant-folds to exactly the word t (< 2^32, no truncation), t is inside the "
            "code and the entry at t is JUMPDEST; in a disassembled stream a JUMPDEST entry sits on a 0x5b byte that is not push data, "
            "which is proved equivalent to the reference EVM's own valid-destination analysis; a JUMPI with a valid target queues the "
            "jump-taken copy and continues (or is retired by a limit) -- both branches; STOP/RETURN/REVERT/SELFDESTRUCT/INVALID/"
            "unassigned bytes retire the thread. The subset/equality of executed offsets against the EVM control-flow graph is "
            "evaluated inside Coq by the reference EVM (both JUMPI outcomes) on the implementation's visit counters; the model is tied "
            "to the code by the VM correspondence run and the translated opcode bodies (T1/T9).",
    "note": "The inclusion 'executed offsets are reachable in the EVM CFG' is a theorem along each path for threads whose steps "
            "satisfy C07's guards (C08_executed_offsets_reachable, a corollary of C07's path simulation: every offset with a positive "
            "visit counter that is not push data is a program counter of the reference EVM's run along the thread's ghost path); outside "
            "those guards and for the equality half it is decided by the Coq-evaluated oracle on loop-free programs (partial). A JUMPDEST "
            "reached by JUMP is stepped over, not executed, by design of Jump::execute: it counts as covered.",
    "technique": "Coq proof of the jump-validation, fork and halting lemmas on a model with translated opcode bodies; reference-EVM "
                 "reachability evaluated inside Coq on the implementation's visit counters; differential correspondence",
}

CODES = {50: "an executed offset is not reachable in the EVM control-flow graph",
         51: "a reachable offset of loop-free code was not executed (nor a JUMP landing)", 52: "panic"}


def check(ctx):
    vlib.translate(ctx)
    vlib.prove(ctx, "props/C08.v", ["SimCases.vo"])
    hb = vlib.harness_bin(ctx)
    rng = ctx.rng
    bw = gen.boundary_words()
    progs = collections.OrderedDict()
    try:
        for l in open(vlib.ROOT + "/corpus/C08.txt"):
            l = l.split("#")[0].strip()
            if l:
                progs.setdefault(bytes.fromhex(l.split()[0]), "corpus")
    except FileNotFoundError:
        pass
    n = 900 if ctx.quick else 15000
    for code in gen.c08_programs(rng, bw, n):
        progs.setdefault(code, "jump-kinds")
    for code in gen.c07_programs(rng, bw, n // 5):
        progs.setdefault(code, "fragment")
    keys = list(progs.keys())
    if ctx.replay_in:
        keys = [bytes.fromhex(json.load(open(ctx.replay_in))["replay"]["code"])]
    cfg = (30000000, 10, 50, 250, 394, 1)
    if hb:
        lines = [gen.vm_line(c, cfg) for c in keys]
        ok, out, diag = vlib.run_harness_sharded(hb, ["vm"], lines)
        ctx.oblige("harness:vm", "correspondence", ok, diag)
        terms = ["mk_vcase %s %s (%s)" % (vlib.coq_bytes(c), gen.coq_config(cfg), l if l != "CHILD-DIED" else 'XPanic "child died"')
                 for c, l in zip(keys, out)]
        header = ("From Coq Require Import String.\nFrom SLX Require Import Base gen.ValueSig SymVal VM VmCases SimCases.\n"
                  "Open Scope string_scope. Open Scope N_scope.\n")
        per = min(150, max(1, len(terms) // 32 + 1))
        bad = vlib.run_cases(ctx, "visited-vs-cfg", header, terms, per_shard=per, fn="check_c08")
        explored = vlib.run_cases(ctx, "cfg-explored", header, terms, per_shard=per, fn="c08_explored")
        disagreements = []
        for idx, code in bad:
            c = keys[idx]
            if code >= 50:
                ctx.violate("C08:%d:%s" % (code, c.hex()[:48]), "%s: program %s" % (CODES.get(code), c.hex()[:160]),
                            {"code": c.hex(), "config": list(cfg), "meaning": CODES.get(code),
                             "how": "echo '<code> 30000000 10 50 250 394 1 100 -1' | build/harness-target/debug/slxh vm ; SimCases.explore"})
            else:
                disagreements.append("%s: model/implementation differ (code %s)" % (c.hex()[:100], code))
        ctx.oblige("correspondence:vm", "correspondence", not disagreements, "\n".join(disagreements[:10]))
        ctx.coverage.update({"evaluations": len(keys), "distinct_nontrivial": len(explored),
                             "offsets_in_reference_cfgs": sum(c - 1 for _, c in explored),
                             "traces_validated_against_impl": len(terms),
                             "input_classes": dict(collections.Counter(progs.values()))})
    return vlib.finish(ctx, rule="distinct loop-free programs with constant jump targets of every kind; non-trivial = the reference "
                       "EVM's control-flow exploration completed (no loop budget exhaustion, no instruction outside the oracle) so "
                       "both the subset and the equality were evaluated", samples=[c.hex() for c in keys[:3]])
