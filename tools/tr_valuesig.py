"""T6: the constructor signature of SymbolicValueData and the per-constructor field lists used by
children(), child_size() and transform() in src/vm/value/mod.rs  ->  coq/gen/ValueSig.v"""
import os
import re

from translate import HEADER, match_brace, norm, read, write_if_changed

KINDS = {
    "BoxedVal<AuxData>": "FChild",
    "Vec<BoxedVal<AuxData>>": "FChildren",
    "Uuid": "FId",
    "KnownWord": "FWord",
    "usize": "FUsize",
    "Option<usize>": "FOptUsize",
    "Vec<PackedSpan<AuxData>>": "FSpans",
}
CHILDISH = ("FChild", "FChildren", "FSpans")


def parse_enum(src):
    m = re.search(r"pub enum SymbolicValueData<AuxData>\s*\{", src)
    end = match_brace(src, m.end() - 1)
    body = src[m.end():end - 1]
    variants = []
    i = 0
    while True:
        m2 = re.compile(r"\s*(?:#\[[^\]]*\]\s*)*(\w+)\s*").match(body, i)
        if not m2 or not m2.group(1):
            break
        name = m2.group(1)
        j = m2.end()
        fields = []
        if j < len(body) and body[j] == "{":
            e = match_brace(body, j)
            for f in body[j + 1:e - 1].split(","):
                f = f.strip()
                if not f:
                    continue
                fn, ft = [x.strip() for x in f.split(":", 1)]
                fields.append((fn, re.sub(r"\s+", "", ft)))
            j = e
        variants.append((name, fields))
        m3 = re.compile(r"\s*,").match(body, j)
        i = m3.end() if m3 else j
        if i >= len(body) or not body[i:].strip():
            break
    return variants


def parse_arms(block):
    """arms of the form `(Self|SVD)::Name [{ bindings }] => rhs` -> {Name: (bindings, rhs)}"""
    arms = {}
    i = 0
    pat = re.compile(r"\s*(?:Self|SVD)::(\w+)\s*")
    while True:
        m = pat.match(block, i)
        if not m:
            break
        name = m.group(1)
        j = m.end()
        binds = ""
        if block[j] == "{":
            e = match_brace(block, j)
            binds = block[j + 1:e - 1]
            j = e
        m2 = re.compile(r"\s*=>\s*").match(block, j)
        j = m2.end()
        # rhs: up to the top-level comma
        depth = 0
        k = j
        while k < len(block):
            c = block[k]
            if c in "({[":
                depth += 1
            elif c in ")}]":
                depth -= 1
                if depth == 0 and c == "}" and block[j] == "{":
                    k += 1
                    break
            elif c == "," and depth == 0:
                break
            k += 1
        rhs = block[j:k]
        arms[name] = (norm(binds), norm(rhs))
        i = k + 1 if k < len(block) and block[k] == "," else k
        m4 = re.compile(r"\s*,").match(block, i)
        if m4:
            i = m4.end()
    return arms


def fn_body(src, sig_regex):
    m = re.search(sig_regex, src)
    if not m:
        raise ValueError("function not found: %s" % sig_regex)
    b = src.index("{", m.end() - 1)
    return src[b + 1:match_brace(src, b) - 1]


def match_block(body, head_regex):
    m = re.search(head_regex, body)
    if not m:
        raise ValueError("unrecognised function body (expected a `%s {..}` over all constructors): %s" % (head_regex, body[:300]))
    b = body.index("{", m.end() - 1)
    return body[b + 1:match_brace(body, b) - 1]


def step_valuesig(repo, out, consts):
    problems = []
    src = read(repo, "src/vm/value/mod.rs")
    variants = parse_enum(src)
    sig = {}
    for name, fields in variants:
        fl = []
        for fn, ft in fields:
            if ft not in KINDS:
                problems.append("%s.%s: unknown field type %s" % (name, fn, ft))
                fl.append((fn, "FUsize"))
            else:
                fl.append((fn, KINDS[ft]))
        sig[name] = fl
    # child_size
    cs_body = fn_body(src, r"pub fn child_size\(&self\)\s*->\s*usize\s*")
    cs_arms = parse_arms(match_block(cs_body, r"match self\s*"))
    # children (the SymbolicValueData one: returns Vec<BoxedVal<AuxData>>)
    ch_body = fn_body(src, r"pub fn children\(&self\)\s*->\s*Vec<BoxedVal<AuxData>>\s*")
    ch_arms = parse_arms(match_block(ch_body, r"match self\s*"))
    # transform
    tr_body = fn_body(src, r"pub fn transform\(&self,\s*transform:\s*impl Fn\(&Self\)\s*->\s*Option<Self>\s*\+\s*Copy,?\s*\)\s*->\s*Self\s*")
    tr_arms = parse_arms(match_block(tr_body, r"None\s*=>\s*match self\s*"))

    def cs_fields(rhs):
        if rhs == "0":
            return []
        out_ = []
        for part in rhs.strip("{}").split("+"):
            m = re.fullmatch(r"(\w+)\.size\(\)", part)
            if m:
                out_.append(m.group(1))
                continue
            m = re.fullmatch(r"(\w+)\.iter\(\)\.map\(\|(\w+)\|\2(?:\.value)?\.size\(\)\)\.sum(?:::<usize>)?\(\)", part)
            if m:
                out_.append(m.group(1))
                continue
            return None
        return out_

    def ch_fields(rhs):
        m = re.fullmatch(r"vec!\[([\w,]*)\]", rhs)
        if m:
            return [x for x in m.group(1).split(",") if x]
        m = re.fullmatch(r"(\w+)\.iter\(\)\.collect\(\)", rhs)
        if m:
            return [m.group(1)]
        m = re.fullmatch(r"(\w+)\.iter\(\)\.map\(\|(\w+)\|&\2\.value\)\.collect\(\)", rhs)
        if m:
            return [m.group(1)]
        m = re.fullmatch(r"\{let mut vec=vec!\[(\w+)\];vec\.extend\((\w+)\);vec\}", rhs)
        if m:
            return [m.group(1), m.group(2)]
        return None

    def tr_fields(name, rhs):
        if rhs == "inner_self":
            return name, []
        m = re.fullmatch(r"Self::(\w+)\{(.*)\}", rhs)
        if not m:
            return None, None
        ctor = m.group(1)
        fl = []
        depth = 0
        cur = ""
        parts = []
        for c in m.group(2):
            if c in "({[":
                depth += 1
            elif c in ")}]":
                depth -= 1
            if c == "," and depth == 0:
                parts.append(cur)
                cur = ""
            else:
                cur += c
        if cur:
            parts.append(cur)
        for part in parts:
            fn, e = part.split(":", 1)
            if re.fullmatch(r"(\w+)\.transform_data\(transform\)", e) and e.startswith(fn + "."):
                fl.append(fn)
            elif re.fullmatch(r"%s\.iter\(\)\.map\(\|(\w+)\|\1\.transform_data\(transform\)\)\.collect\(\)" % fn, e):
                fl.append(fn)
            elif re.fullmatch(r"%s\.iter\(\)\.map\(\|(\w+)\|\1\.transform\(transform\)\)\.collect\(\)" % fn, e):
                fl.append(fn)
            elif e == "*" + fn:
                pass
            else:
                return ctor, None
        return ctor, fl

    rows = []
    for name, fl in sig.items():
        declared = [fn for fn, k in fl if k in CHILDISH]
        row = {"name": name, "fields": fl}
        for key, arms, f in (("child_size", cs_arms, lambda r: cs_fields(r)), ("children", ch_arms, lambda r: ch_fields(r))):
            if name not in arms:
                problems.append("%s: no arm in %s()" % (name, key))
                row[key] = []
                continue
            got = f(arms[name][1])
            if got is None:
                problems.append("%s: %s() arm not recognised: %s" % (name, key, arms[name][1]))
                got = []
            row[key] = got
        if name not in tr_arms:
            problems.append("%s: no arm in transform()" % name)
            row["transform"], row["transform_ctor"] = [], name
        else:
            ctor, got = tr_fields(name, tr_arms[name][1])
            if got is None:
                problems.append("%s: transform() arm not recognised: %s" % (name, tr_arms[name][1]))
                got = []
            row["transform"], row["transform_ctor"] = got, ctor or name
        rows.append(row)

    names = [r["name"] for r in rows]
    s = HEADER + "From Coq Require Import List NArith String.\nImport ListNotations.\nOpen Scope N_scope.\n\n"
    s += "(* one tag per variant of `enum SymbolicValueData` (src/vm/value/mod.rs), in declaration order *)\n"
    s += "Inductive tag :=\n" + "\n".join("| T_%s" % n for n in names) + ".\n\n"
    s += "Definition tag_idx (t : tag) : N :=\n  match t with\n" + "\n".join("  | T_%s => %d" % (n, i) for i, n in enumerate(names)) + "\n  end.\n"
    s += "Definition tag_eqb (a b : tag) : bool := tag_idx a =? tag_idx b.\n"
    s += "Definition all_tags : list tag := [" + "; ".join("T_" + n for n in names) + "].\n\n"
    s += "Definition tag_name (t : tag) : string :=\n  match t with\n" + "\n".join('  | T_%s => "%s"%%string' % (n, n) for n in names) + "\n  end.\n\n"
    s += "Inductive fkind := FChild | FChildren | FId | FWord | FUsize | FOptUsize | FSpans.\n"
    s += "Definition is_childish (k : fkind) : bool := match k with FChild | FChildren | FSpans => true | _ => false end.\n\n"

    def fl_term(fl):
        return "[" + "; ".join('("%s"%%string, %s)' % (fn, k) for fn, k in fl) + "]"

    def sl_term(l):
        return "[" + "; ".join('"%s"%%string' % x for x in l) + "]"

    s += "(* declared fields, in declaration order *)\nDefinition tag_fields (t : tag) : list (string * fkind) :=\n  match t with\n"
    s += "\n".join("  | T_%s => %s" % (r["name"], fl_term(r["fields"])) for r in rows) + "\n  end.\n\n"
    for key in ("children", "child_size", "transform"):
        s += "(* the child-carrying fields that %s() uses, in the order it uses them *)\n" % key
        s += "Definition %s_fields (t : tag) : list string :=\n  match t with\n" % key
        s += "\n".join("  | T_%s => %s" % (r["name"], sl_term(r[key])) for r in rows) + "\n  end.\n\n"
    s += "(* the constructor transform() rebuilds for each constructor *)\nDefinition transform_ctor (t : tag) : tag :=\n  match t with\n"
    s += "\n".join("  | T_%s => T_%s" % (r["name"], r["transform_ctor"] if r["transform_ctor"] in names else r["name"]) for r in rows) + "\n  end.\n"
    write_if_changed(os.path.join(out, "ValueSig.v"), s)
    gen_rust_glue(rows, out)
    return problems, {"constructors": len(rows)}


def gen_rust_glue(rows, out):
    """harness/src/gen_sv.rs: printer SymbolicValue -> Coq term and builder (tag, attrs, kids) -> RSVD,
    generated from the same enum definition so that a new or changed constructor reaches both sides."""
    r = "// GENERATED by tools/tr_valuesig.py from src/vm/value/mod.rs -- do not edit\n#![allow(unused_mut, clippy::all)]\n"
    r += "use std::sync::Arc;\nuse ethnum::U256;\nuse storage_layout_extractor::vm::value::{known::KnownWord, BoxedVal, PackedSpan, SymbolicValue, SymbolicValueData as SVD};\n"
    r += "use crate::util::Ids;\n\n"
    r += "pub fn sv_term<A: Clone + PartialEq>(v: &SymbolicValue<A>, ids: &mut Ids) -> String {\n    svd_term(v.data(), ids)\n}\n\n"
    r += "fn kids<A: Clone + PartialEq>(l: &[&BoxedVal<A>], ids: &mut Ids) -> String {\n    l.iter().map(|c| sv_term(c, ids)).collect::<Vec<_>>().join(\";\")\n}\n\n"
    r += "#[allow(clippy::too_many_lines)]\npub fn svd_term<A: Clone + PartialEq>(d: &SVD<A>, ids: &mut Ids) -> String {\n    match d {\n"
    for row in rows:
        name, fl = row["name"], row["fields"]
        if not fl:
            r += "        SVD::%s => \"(Node T_%s [] [])\".to_string(),\n" % (name, name)
            continue
        binds = ", ".join(fn for fn, _ in fl)
        r += "        SVD::%s { %s } => {\n            let mut attrs: Vec<String> = vec![];\n            let mut ch: Vec<&BoxedVal<A>> = vec![];\n" % (name, binds)
        for fn, k in fl:
            if k == "FChild":
                r += "            ch.push(%s);\n" % fn
            elif k == "FChildren":
                r += "            ch.extend(%s.iter());\n" % fn
            elif k == "FId":
                r += "            attrs.push(ids.get(%s).to_string());\n" % fn
            elif k == "FWord":
                r += "            attrs.push(%s.value_le().to_string());\n" % fn
            elif k == "FUsize":
                r += "            attrs.push(%s.to_string());\n" % fn
            elif k == "FOptUsize":
                r += "            match %s { None => attrs.push(\"0\".into()), Some(p) => { attrs.push(\"1\".into()); attrs.push(p.to_string()); } }\n" % fn
            elif k == "FSpans":
                r += "            for sp in %s.iter() { attrs.push(sp.offset.to_string()); attrs.push(sp.size.to_string()); ch.push(&sp.value); }\n" % fn
        r += "            format!(\"(Node T_%s [{}] [{}])\", attrs.join(\";\"), kids(&ch, ids))\n        }\n" % name
    r += "    }\n}\n\n"
    r += "/// Builds the payload for `tag` from attributes and children given in declaration order.\n"
    r += "#[allow(clippy::too_many_lines)]\npub fn build_svd<A: Clone + PartialEq>(tag: &str, attrs: &[U256], kids: Vec<BoxedVal<A>>) -> Result<SVD<A>, String> {\n"
    r += "    let mut a = attrs.iter();\n    let mut k = kids.into_iter();\n    let nk = k.len();\n"
    r += "    let mut na = |what: &str| a.next().copied().ok_or_else(|| format!(\"missing attribute {what}\"));\n"
    r += "    let d = match tag {\n"
    for row in rows:
        name, fl = row["name"], row["fields"]
        if not fl:
            r += "        \"%s\" => SVD::%s,\n" % (name, name)
            continue
        r += "        \"%s\" => {\n" % name
        nfixed = len([1 for _, k in fl if k == "FChild"])
        for fn, k in fl:
            if k == "FChild":
                r += "            let %s = k.next().ok_or(\"missing child %s\")?;\n" % (fn, fn)
            elif k == "FChildren":
                # takes all children that are not needed by the FChild fields declared after it
                later = len([1 for f2, k2 in fl[[x[0] for x in fl].index(fn) + 1:] if k2 == "FChild"])
                r += "            let take = k.len().saturating_sub(%d);\n            let %s: Vec<BoxedVal<A>> = k.by_ref().take(take).collect();\n" % (later, fn)
            elif k == "FId":
                r += "            let %s = uuid::Uuid::from_u128(na(\"%s\")?.as_u128());\n" % (fn, fn)
            elif k == "FWord":
                r += "            let %s = KnownWord::from_le(na(\"%s\")?);\n" % (fn, fn)
            elif k == "FUsize":
                r += "            let %s = na(\"%s\")?.as_usize();\n" % (fn, fn)
            elif k == "FOptUsize":
                r += "            let %s = if na(\"%s\")? == U256::ZERO { None } else { Some(na(\"%s\")?.as_usize()) };\n" % (fn, fn, fn)
            elif k == "FSpans":
                r += "            let mut %s = vec![];\n            for v in k.by_ref() { let o = na(\"offset\")?.as_usize(); let s = na(\"size\")?.as_usize(); %s.push(PackedSpan::new(o, s, v)); }\n" % (fn, fn)
        r += "            SVD::%s { %s }\n        }\n" % (name, ", ".join(fn for fn, _ in fl))
    r += "        other => return Err(format!(\"unknown tag {other}\")),\n    };\n"
    r += "    let _ = nk;\n    let _ = Arc::new(0);\n    Ok(d)\n}\n"
    hdir = os.path.join(os.path.dirname(os.path.dirname(os.path.abspath(out))), "harness", "src")
    if os.path.isdir(hdir):
        write_if_changed(os.path.join(hdir, "gen_sv.rs"), r)


steps = [("T6-value-signature", step_valuesig)]
