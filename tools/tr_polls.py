"""T7 (polls): the polled loops of every stage. Each must keep the shape
`if <counter> % <interval> == 0 && <watchdog>.should_stop() { Err(StoppedByWatchdog).locate(..)?; }`
with <interval> bound from `.poll_every()` and <counter> advanced once per iteration.
 -> coq/gen/PollSites.v (the inventory, checked by a Coq lemma against the expected eleven sites)"""
import os
import re

from translate import HEADER, match_brace, norm, read, write_if_changed

EXPECTED = [
    ("src/vm/mod.rs", "execute"),
    ("src/opcode/memory.rs", "CallDataCopy"), ("src/opcode/memory.rs", "CodeCopy"),
    ("src/opcode/memory.rs", "ExtCodeCopy"), ("src/opcode/memory.rs", "ReturnDataCopy"),
    ("src/opcode/control.rs", "store_return_data"),
    ("src/tc/mod.rs", "lift"), ("src/tc/mod.rs", "assign_vars"), ("src/tc/mod.rs", "infer"), ("src/tc/mod.rs", "unify"),
    ("src/tc/unification.rs", "unify"),
]


def enclosing(src, pos):
    """name of the innermost `fn name` or `impl Opcode for Name` whose body contains pos"""
    best = None
    for m in re.finditer(r"(?:fn (\w+)\s*(?:<[^>]*>)?\s*\(|impl Opcode for (\w+)\s*\{)", src):
        b = src.find("{", m.end() - 1)
        if b < 0 or b > pos:
            continue
        try:
            e = match_brace(src, b)
        except Exception:
            continue
        if b < pos < e:
            name = m.group(1) or m.group(2)
            if best is None or b > best[0]:
                best = (b, e, name)
    return best


def step_polls(repo, out, consts):
    problems = []
    found = []
    for rel in sorted({f for f, _ in EXPECTED}):
        src = read(repo, rel)
        for m in re.finditer(r"if\s+(\w+)\s*%\s*(\w+)\s*==\s*0\s*&&\s*([\w.()]+?)\.should_stop\(\)\s*\{", src):
            counter, interval = m.group(1), m.group(2)
            be = match_brace(src, m.end() - 1)
            body = norm(src[m.end():be - 1])
            enc = enclosing(src, m.start())
            if enc is None:
                problems.append("%s: poll outside any function" % rel)
                continue
            b, e, name = enc
            # for opcode impls the function is `execute`; report the opcode's name
            outer = enclosing(src, b - 1) if name == "execute" and "impl Opcode for" in src[:b] else None
            if rel.startswith("src/opcode/") and name == "execute":
                im = [x for x in re.finditer(r"impl Opcode for (\w+)\s*\{", src) if x.start() < b]
                if im:
                    name = im[-1].group(1)
            fbody = norm(src[b:e])
            ok_interval = re.search(r"let %s=[\w.()]*\.poll_every\(\)" % interval, fbody) is not None
            ok_counter = (("%s+=1" % counter) in fbody) or re.search(r"for\(%s,\w+\)in[^{]*\.enumerate\(\)" % counter, fbody) is not None
            ok_body = re.fullmatch(r"(let location=.*;)?Err\(Error::StoppedByWatchdog\)\.locate\(\w+(\.\w+\(\))?\)\?;", body) is not None
            # the counter must advance on EVERY iteration: no `continue` between the poll and the bump (a skipped bump
            # lets the loop run arbitrarily long without polling: the defect repaired by cb7530b)
            if ("%s+=1" % counter) in fbody:
                loop = None
                for lm in re.finditer(r"(?:for\s[^{;]*|loop\s*|while\s[^{;]*)\{", src):
                    lb = lm.end() - 1
                    if lb > m.start():
                        break
                    try:
                        le = match_brace(src, lb)
                    except Exception:
                        continue
                    if lb < m.start() < le and (loop is None or lb > loop[0]):
                        loop = (lb, le)
                if loop is None:
                    problems.append("%s::%s: the poll is not inside a loop" % (rel, name))
                else:
                    bump = re.search(r"%s\s*\+=\s*1\s*;" % counter, src[loop[0]:loop[1]])
                    if bump is None:
                        problems.append("%s::%s: counter `%s` is not advanced inside the polled loop" % (rel, name, counter))
                    else:
                        bpos = loop[0] + bump.start()
                        seg = src[be:bpos] if bpos > be else src[bpos:m.start()]
                        seg = re.sub(r"//[^\n]*", "", seg)
                        if re.search(r"\bcontinue\b|\bbreak\b", seg):
                            problems.append("%s::%s: a `continue`/`break` lies between the poll and `%s += 1` (the counter would not "
                                            "advance on every iteration)" % (rel, name, counter))
            if not ok_interval:
                problems.append("%s::%s: interval `%s` is not bound from poll_every()" % (rel, name, interval))
            if not ok_counter:
                problems.append("%s::%s: counter `%s` is not advanced once per iteration" % (rel, name, counter))
            if not ok_body:
                problems.append("%s::%s: stop branch not recognised: %s" % (rel, name, body))
            found.append((rel, name))
    for site in EXPECTED:
        if site not in found:
            problems.append("polled loop missing: %s::%s" % site)
    for site in found:
        if site not in EXPECTED:
            problems.append("unexpected polled loop: %s::%s" % site)
    s = HEADER + "From Coq Require Import List String.\nImport ListNotations.\nOpen Scope string_scope.\n"
    s += "Definition poll_sites : list (string * string) := [\n  " + ";\n  ".join('("%s", "%s")' % x for x in found) + "\n].\n"
    write_if_changed(os.path.join(out, "PollSites.v"), s)
    return problems, {"sites": len(found)}


steps = [("T7-polled-loops", step_polls)]
