"""Input generators shared by the checks. Every random choice comes from the rng passed in."""
import json
import os
import re

REPO = os.environ.get("VERIF_REPO", "/repo")

_contracts = None


def real_contracts():
    """hex strings of the compiler-produced contracts that ship with the repository's tests"""
    global _contracts
    if _contracts is not None:
        return _contracts
    out = []
    td = os.path.join(REPO, "tests")
    for f in sorted(os.listdir(td)):
        if f.endswith(".rs"):
            src = open(os.path.join(td, f)).read()
            for m in re.finditer(r'"(?:0x)?([0-9a-fA-F]{200,})"', src):
                h = m.group(1)
                if len(h) % 2 == 0:
                    out.append((f, h.lower()))
    ad = os.path.join(REPO, "asset")
    for f in sorted(os.listdir(ad)):
        if f.endswith(".json"):
            try:
                j = json.load(open(os.path.join(ad, f)))
                h = j["deployedBytecode"]["object"]
                h = h[2:] if h.startswith("0x") else h
                if len(h) % 2 == 0 and len(h) > 100:
                    out.append((f, h.lower()))
            except Exception:
                pass
    _contracts = out
    return out


def boundary_words():
    ws = {0, 1, 2, 255, 256, 257, 2 ** 32, 2 ** 64, 2 ** 255, 2 ** 256 - 1, 2 ** 255 - 1, 2 ** 64 - 1,
          2 ** 32 - 1, 2 ** 32 + 1, 2 ** 64 + 1, 2 ** 256 - 2, 2 ** 128, 2 ** 160, 2 ** 160 - 1}
    for k in range(7, 256):
        ws.update({2 ** k, 2 ** k - 1, 2 ** k + 1})
    return sorted(ws)


def push(v):
    """smallest PUSH of the value v (PUSH0 for 0)"""
    if v == 0:
        return bytes([0x5f])
    n = (v.bit_length() + 7) // 8
    return bytes([0x5f + n]) + v.to_bytes(n, "big")


def push_n(v, n):
    return bytes([0x5f + n]) + v.to_bytes(n, "big")
