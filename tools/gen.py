"""Input generators shared by the checks. Every random choice comes from the rng passed in."""
import json
import os
import re

REPO = os.environ.get("VERIF_REPO", "/repo")

_contracts = None


def real_contracts():
    """hex strings of the compiler-produced contracts that ship with the repository's tests"""
    global _contracts
    if _contracts is not None:
        return _contracts
    out = []
    td = os.path.join(REPO, "tests")
    for f in sorted(os.listdir(td)):
        if f.endswith(".rs"):
            src = open(os.path.join(td, f)).read()
            for m in re.finditer(r'"(?:0x)?([0-9a-fA-F]{200,})"', src):
                h = m.group(1)
                if len(h) % 2 == 0:
                    out.append((f, h.lower()))
    ad = os.path.join(REPO, "asset")
    for f in sorted(os.listdir(ad)):
        if f.endswith(".json"):
            try:
                j = json.load(open(os.path.join(ad, f)))
                h = j["deployedBytecode"]["object"]
                h = h[2:] if h.startswith("0x") else h
                if len(h) % 2 == 0 and len(h) > 100:
                    out.append((f, h.lower()))
            except Exception:
                pass
    _contracts = out
    return out


def boundary_words():
    ws = {0, 1, 2, 255, 256, 257, 2 ** 32, 2 ** 64, 2 ** 255, 2 ** 256 - 1, 2 ** 255 - 1, 2 ** 64 - 1,
          2 ** 32 - 1, 2 ** 32 + 1, 2 ** 64 + 1, 2 ** 256 - 2, 2 ** 128, 2 ** 160, 2 ** 160 - 1}
    for k in range(7, 256):
        ws.update({2 ** k, 2 ** k - 1, 2 ** k + 1})
    return sorted(ws)


def push(v):
    """smallest PUSH of the value v (PUSH0 for 0)"""
    if v == 0:
        return bytes([0x5f])
    n = (v.bit_length() + 7) // 8
    return bytes([0x5f + n]) + v.to_bytes(n, "big")


def push_n(v, n):
    return bytes([0x5f + n]) + v.to_bytes(n, "big")


# ----------------------------------------------------------------------------------------------
# programs

OPS = {
    "STOP": 0x00, "ADD": 0x01, "MUL": 0x02, "SUB": 0x03, "DIV": 0x04, "SDIV": 0x05, "MOD": 0x06, "SMOD": 0x07,
    "ADDMOD": 0x08, "MULMOD": 0x09, "EXP": 0x0a, "SIGNEXTEND": 0x0b, "LT": 0x10, "GT": 0x11, "SLT": 0x12,
    "SGT": 0x13, "EQ": 0x14, "ISZERO": 0x15, "AND": 0x16, "OR": 0x17, "XOR": 0x18, "NOT": 0x19, "BYTE": 0x1a,
    "SHL": 0x1b, "SHR": 0x1c, "SAR": 0x1d, "SHA3": 0x20, "ADDRESS": 0x30, "BALANCE": 0x31, "ORIGIN": 0x32,
    "CALLER": 0x33, "CALLVALUE": 0x34, "CALLDATALOAD": 0x35, "CALLDATASIZE": 0x36, "CALLDATACOPY": 0x37,
    "CODESIZE": 0x38, "CODECOPY": 0x39, "GASPRICE": 0x3a, "EXTCODESIZE": 0x3b, "EXTCODECOPY": 0x3c,
    "RETURNDATASIZE": 0x3d, "RETURNDATACOPY": 0x3e, "EXTCODEHASH": 0x3f, "BLOCKHASH": 0x40, "COINBASE": 0x41,
    "TIMESTAMP": 0x42, "NUMBER": 0x43, "PREVRANDAO": 0x44, "GASLIMIT": 0x45, "CHAINID": 0x46,
    "SELFBALANCE": 0x47, "BASEFEE": 0x48, "POP": 0x50, "MLOAD": 0x51, "MSTORE": 0x52, "MSTORE8": 0x53,
    "SLOAD": 0x54, "SSTORE": 0x55, "JUMP": 0x56, "JUMPI": 0x57, "PC": 0x58, "MSIZE": 0x59, "GAS": 0x5a,
    "JUMPDEST": 0x5b, "CREATE": 0xf0, "CALL": 0xf1, "CALLCODE": 0xf2, "RETURN": 0xf3, "DELEGATECALL": 0xf4,
    "CREATE2": 0xf5, "STATICCALL": 0xfa, "REVERT": 0xfd, "INVALID": 0xfe, "SELFDESTRUCT": 0xff,
    "LOG0": 0xa0, "LOG1": 0xa1, "LOG2": 0xa2, "LOG3": 0xa3, "LOG4": 0xa4,
}
# (pops, pushes)
ARITY = {
    "ADD": (2, 1), "MUL": (2, 1), "SUB": (2, 1), "DIV": (2, 1), "SDIV": (2, 1), "MOD": (2, 1), "SMOD": (2, 1),
    "ADDMOD": (3, 1), "MULMOD": (3, 1), "EXP": (2, 1), "SIGNEXTEND": (2, 1), "LT": (2, 1), "GT": (2, 1),
    "SLT": (2, 1), "SGT": (2, 1), "EQ": (2, 1), "ISZERO": (1, 1), "AND": (2, 1), "OR": (2, 1), "XOR": (2, 1),
    "NOT": (1, 1), "BYTE": (2, 1), "SHL": (2, 1), "SHR": (2, 1), "SAR": (2, 1), "SHA3": (2, 1), "ADDRESS": (0, 1),
    "BALANCE": (1, 1), "ORIGIN": (0, 1), "CALLER": (0, 1), "CALLVALUE": (0, 1), "CALLDATALOAD": (1, 1),
    "CALLDATASIZE": (0, 1), "CALLDATACOPY": (3, 0), "CODESIZE": (0, 1), "CODECOPY": (3, 0), "GASPRICE": (0, 1),
    "EXTCODESIZE": (1, 1), "EXTCODECOPY": (4, 0), "RETURNDATASIZE": (0, 1), "RETURNDATACOPY": (3, 0),
    "EXTCODEHASH": (1, 1), "BLOCKHASH": (1, 1), "COINBASE": (0, 1), "TIMESTAMP": (0, 1), "NUMBER": (0, 1),
    "PREVRANDAO": (0, 1), "GASLIMIT": (0, 1), "CHAINID": (0, 1), "SELFBALANCE": (0, 1), "BASEFEE": (0, 1),
    "POP": (1, 0), "MLOAD": (1, 1), "MSTORE": (2, 0), "MSTORE8": (2, 0), "SLOAD": (1, 1), "SSTORE": (2, 0),
    "PC": (0, 1), "MSIZE": (0, 1), "GAS": (0, 1), "CREATE": (3, 1), "CALL": (7, 1), "CALLCODE": (7, 1),
    "DELEGATECALL": (6, 1), "CREATE2": (4, 1), "STATICCALL": (6, 1),
}
ALU = ["ADD", "MUL", "SUB", "DIV", "SDIV", "MOD", "SMOD", "EXP", "LT", "GT", "SLT", "SGT", "EQ", "ISZERO", "AND",
       "OR", "XOR", "NOT", "SHL", "SHR", "SAR"]
ENV0 = ["ADDRESS", "ORIGIN", "CALLER", "CALLVALUE", "CALLDATASIZE", "CODESIZE", "GASPRICE", "RETURNDATASIZE",
        "COINBASE", "TIMESTAMP", "NUMBER", "PREVRANDAO", "GASLIMIT", "CHAINID", "SELFBALANCE", "BASEFEE", "PC", "MSIZE", "GAS"]


def small_or_boundary(rng, bw):
    r = rng.random()
    if r < 0.45:
        return rng.randrange(0, 8)
    if r < 0.6:
        return rng.choice([0, 32, 64, 96, 128, 0x20, 0x40, 0x60, 0x80, 255, 256, 257])
    if r < 0.9:
        return rng.choice(bw)
    return rng.getrandbits(256)


class Asm:
    """tiny assembler with labels; jump targets are emitted as PUSH2"""

    def __init__(self):
        self.items = []

    def op(self, name):
        self.items.append(("b", bytes([OPS[name]])))
        return self

    def raw(self, bs):
        self.items.append(("b", bytes(bs)))
        return self

    def push(self, v, n=None):
        self.items.append(("b", push(v) if n is None else push_n(v, n)))
        return self

    def label(self, name):
        self.items.append(("l", name))
        self.items.append(("b", bytes([0x5b])))
        return self

    def push_label(self, name):
        self.items.append(("r", name))
        return self

    def assemble(self):
        return assemble_ext(self)


def random_program(rng, bw, n_ops=30, hostile=0.1, loops=True):
    """stack-aware random program: mostly valid stack usage, constants biased to boundary values,
    a share of raw/hostile bytes, jumps to valid and invalid targets, occasional loops"""
    a = Asm()
    depth = 0
    labels = 0
    open_labels = []
    for _ in range(n_ops):
        r = rng.random()
        if r < hostile:
            k = rng.random()
            if k < 0.3:
                a.raw([rng.randrange(256)])
            elif k < 0.6:
                name = rng.choice(list(ARITY))
                a.op(name)
                depth = max(0, depth - ARITY[name][0]) + ARITY[name][1]
            elif k < 0.8:
                a.push(rng.choice(bw)).op(rng.choice(["JUMP", "JUMPI", "MLOAD", "SHL", "MSTORE", "SHA3"]))
                depth = max(0, depth - 1)
            else:
                a.raw([0x80 + rng.randrange(32)])  # DUP/SWAP maybe too deep
            continue
        if depth < 2 or r < 0.35:
            a.push(small_or_boundary(rng, bw))
            depth += 1
        elif r < 0.6:
            name = rng.choice(ALU)
            a.op(name)
            depth += ARITY[name][1] - ARITY[name][0]
        elif r < 0.66:
            a.op(rng.choice(ENV0))
            depth += 1
        elif r < 0.74:
            name = rng.choice(["MSTORE", "SSTORE", "MSTORE8", "MLOAD", "SLOAD", "POP", "CALLDATALOAD", "BALANCE"])
            if depth >= ARITY[name][0]:
                a.op(name)
                depth += ARITY[name][1] - ARITY[name][0]
        elif r < 0.8:
            n = rng.randrange(1, min(depth, 16) + 1)
            if rng.random() < 0.5 and depth < 1000:
                a.raw([0x7f + n])
                depth += 1
            elif n < depth:
                a.raw([0x8f + n])
        elif r < 0.86 and loops:
            name = "L%d" % labels
            labels += 1
            a.label(name)
            open_labels.append(name)
        elif r < 0.93 and open_labels:
            name = rng.choice(open_labels)
            if rng.random() < 0.6:
                a.push(small_or_boundary(rng, bw)).push_label(name).op("JUMPI")
            else:
                a.push_label(name).op("JUMP")
        elif r < 0.96:
            name = rng.choice(["SHA3", "CALLDATACOPY", "CODECOPY", "RETURNDATACOPY", "CALL", "STATICCALL", "CREATE",
                               "CREATE2", "EXTCODECOPY", "DELEGATECALL", "CALLCODE"])
            need = ARITY[name][0]
            for _ in range(max(0, need - depth)):
                a.push(small_or_boundary(rng, bw))
                depth += 1
            a.op(name)
            depth += ARITY[name][1] - need
        elif r < 0.98:
            # forward jump over a little dead code
            name = "L%d" % labels
            labels += 1
            if rng.random() < 0.5:
                a.push(rng.randrange(2)).push_label(name).op("JUMPI")
            else:
                a.push_label(name).op("JUMP").op("INVALID")
            a.label(name)
            open_labels.append(name)
        else:
            a.op(rng.choice(["STOP", "RETURN", "REVERT", "INVALID", "SELFDESTRUCT"]))
    if rng.random() < 0.7:
        a.op("STOP")
    return a.assemble()


def random_config(rng, tight=True):
    """(gas, iter, fork, size, mem, permissive)"""
    if tight:
        return (rng.choice([300, 1000, 5000, 100000, 30000000]), rng.randrange(1, 13), rng.randrange(1, 61),
                rng.choice([1, 2, 3, 5, 10, 50, 250, 1000]), rng.choice([0, 1, 31, 32, 33, 64, 394, 1000]),
                rng.randrange(2))
    return (30000000, 10, 50, 250, 394, rng.randrange(2))


def coq_config(cfg, poll_every=100, stop_at=None):
    gas, it, fk, sz, mem, perm = cfg
    return "(mk_config %d %d %d %d %d %s %d %s)" % (gas, it, fk, sz, mem, "true" if perm else "false", poll_every,
                                                   "None" if stop_at is None else "(Some %d)" % stop_at)


def vm_line(code, cfg, poll_every=100, stop_at=None):
    gas, it, fk, sz, mem, perm = cfg
    return "%s %d %d %d %d %d %d %d %d" % (code.hex(), gas, it, fk, sz, mem, perm, poll_every, -1 if stop_at is None else stop_at)


def loop_programs(rng, bw, n):
    """programs whose control flow stresses the execution bounds"""
    out = []
    for _ in range(n):
        kind = rng.randrange(9)
        a = Asm()
        if kind == 0:      # tight loop / self jump
            a.label("L").push_label("L").op("JUMP")
        elif kind == 1:    # loop whose body grows the stack
            a.label("L")
            for _ in range(rng.randrange(1, 4)):
                a.push(small_or_boundary(rng, bw))
            a.push_label("L").op("JUMP")
        elif kind == 2:    # conditional back edge(s): fork at the loop head every round
            a.push(rng.randrange(3)).label("L")
            for _ in range(rng.randrange(0, 3)):
                a.push(1).op("ADD")
            a.raw([0x80]).push_label("L").op("JUMPI")
            if rng.random() < 0.5:
                a.push_label("L").op("JUMP")
            a.op("STOP")
        elif kind == 3:    # nested loops
            a.label("A").push(1).label("B").push(1).op("ADD").raw([0x80]).push_label("B").op("JUMPI")
            a.op("POP").push(rng.randrange(2)).push_label("A").op("JUMPI").op("STOP")
        elif kind == 4:    # fork bomb: chain of JUMPI to shared targets
            k = rng.randrange(2, 7)
            for i in range(rng.randrange(3, 12)):
                a.op("CALLVALUE").push_label("T%d" % rng.randrange(k)).op("JUMPI")
            a.op("STOP")
            for i in range(k):
                a.label("T%d" % i)
                if rng.random() < 0.5:
                    a.op("CALLER").push_label("T%d" % rng.randrange(k)).op("JUMPI")
                a.push(i).push(i).op("SSTORE")
                if rng.random() < 0.3:
                    a.push_label("T%d" % rng.randrange(k)).op("JUMP")
                else:
                    a.op("STOP")
        elif kind == 5:    # jump table
            k = rng.randrange(2, 6)
            a.push(0).op("CALLDATALOAD")
            for i in range(k):
                a.raw([0x80]).push(i).op("EQ").push_label("C%d" % i).op("JUMPI")
            a.op("STOP")
            for i in range(k):
                a.label("C%d" % i).push(i).op("SLOAD").op("POP")
                if rng.random() < 0.4:
                    a.push_label("C%d" % rng.randrange(k)).op("JUMP")
                else:
                    a.op("STOP")
        elif kind == 6:    # storage read-mask-write in a loop (cyclic type evidence)
            slot = rng.randrange(4)
            a.label("L").push(slot).op("SLOAD").push(rng.choice([0xff, 0xffff, 2 ** 160 - 1, 2 ** 128 - 1])).op("AND")
            a.push(rng.choice([1, 2, 0x100])).op(rng.choice(["ADD", "MUL", "OR"])).push(slot).op("SSTORE")
            a.op("CALLVALUE").push_label("L").op("JUMPI").op("STOP")
        elif kind == 7:    # loop squaring / hashing a running value
            a.push(3).label("L").raw([0x80]).op(rng.choice(["MUL", "ADD", "EXP"]))
            if rng.random() < 0.5:
                a.push(0).op("MSTORE").push(32).push(0).op("SHA3")
            a.push_label("L").op("JUMP")
        else:              # random program with loops
            out.append(random_program(rng, bw, n_ops=rng.choice([10, 25, 50]), hostile=0.05))
            continue
        out.append(a.assemble())
    return out


def error_programs(rng, bw, n):
    """programs mixing bad jump targets (non-JUMPDEST, out of range, inside push data, symbolic, >= 2^32),
    stack underflow / overflow and gas exhaustion with ordinary code"""
    out = []
    for _ in range(n):
        a = Asm()
        pieces = rng.randrange(1, 6)
        for p in range(pieces):
            kind = rng.randrange(12)
            jop = rng.choice(["JUMP", "JUMPI"])
            pre = (lambda: a.push(rng.randrange(2))) if jop == "JUMPI" else (lambda: None)
            if kind == 0:      # target that is not a JUMPDEST
                pre(); a.push(rng.randrange(0, 6)).op(jop)
            elif kind == 1:    # out of range
                pre(); a.push(rng.choice([0x1000, 0xffff, 2 ** 31, 2 ** 32 - 1])).op(jop)
            elif kind == 2:    # >= 2^32 / 2^64 / 2^128 with valid low bits (the label just placed is at a small offset)
                a.label("V%d" % p); pre()
                hi = rng.choice([2 ** 32, 2 ** 64, 2 ** 64, 2 ** 128, 2 ** 255])
                a.items.append(("rhi", ("V%d" % p, hi))); a.op(jop)
            elif kind == 3:    # inside push data: a 0x5b byte that is an immediate
                a.raw(b"\x61\x5b\x5b").op("POP"); pre(); a.push(len(a.assemble()) - 3).op(jop)
            elif kind == 4:    # symbolic target
                pre(); a.op(rng.choice(["CALLER", "CALLVALUE", "CALLDATASIZE"])).op(jop)
            elif kind == 5:    # stack underflow
                a.op(rng.choice(["ADD", "POP", "SSTORE", "MSTORE", "DUP1" if False else "SWAP1" if False else "MUL"]))
            elif kind == 6:    # DUP/SWAP too deep
                a.push(1).raw([0x80 + rng.randrange(1, 32)])
            elif kind == 7:    # valid jump over dead code
                pre(); a.push_label("OK%d" % p).op(jop).op("INVALID").label("OK%d" % p)
            elif kind == 8:    # ordinary storage code
                a.push(rng.randrange(8)).op("SLOAD").push(rng.randrange(8)).op("SSTORE")
            elif kind == 9:    # expensive loop (gas exhaustion with a small gas limit)
                a.label("G%d" % p).push(0).push(0).op("SSTORE").op("CALLVALUE").push_label("G%d" % p).op("JUMPI")
            elif kind == 10:   # stack overflow loop
                a.label("S%d" % p).push(1).push(1).push_label("S%d" % p).op("JUMP")
            else:
                a.raw(random_program(rng, bw, n_ops=6, hostile=0.1, loops=False))
        if rng.random() < 0.6:
            a.op("STOP")
        out.append(a.assemble())
    return out


ALU2 = ["ADD", "MUL", "SUB", "DIV", "SDIV", "MOD", "SMOD", "EXP", "LT", "GT", "SLT", "SGT", "EQ", "AND", "OR", "XOR",
        "SHL", "SHR", "SAR"]
ALU1 = ["ISZERO", "NOT"]
K4_OPS = ["ADDMOD", "MULMOD", "SIGNEXTEND", "BYTE"]


def c07_programs(rng, bw, n, known_class=False, max_branches=5, trunc_tail=False):
    """stack-safe, loop-free programs over C07's fragment: PUSH0..32, DUP/SWAP, POP, ALU, PC, CODESIZE, aligned
    MSTORE/MLOAD, SLOAD/SSTORE on literal keys, forward JUMP/JUMPI to constant targets (<= 5 JUMPIs)."""
    out = []
    keys = [0, 1, 2, 3, 2 ** 64, 2 ** 128 + 5, 2 ** 256 - 1, 0x360894a13ba1a3210667c828492db98dca3e2076cc3735a920a3ca505d382bbc]
    for _ in range(n):
        a = Asm()
        depth = 0
        branches = 0
        labels = 0
        pending = []    # (label, depth expected at label)

        def operand():
            r = rng.random()
            if r < 0.3:
                return rng.choice([0, 1, 2, 3, 7, 8, 31, 32, 255, 256])
            if r < 0.85:
                return rng.choice(bw)
            return rng.getrandbits(rng.choice([8, 64, 160, 255, 256]))

        def block(k):
            nonlocal depth, branches, labels
            for _ in range(k):
                r = rng.random()
                if depth < 2 or r < 0.3:
                    v = operand()
                    if rng.random() < 0.15:
                        nb = max(1, (v.bit_length() + 7) // 8)
                        a.push(v, rng.randrange(nb, 33))      # wider PUSH than necessary
                    else:
                        a.push(v)
                    depth += 1
                elif r < 0.34 and depth < 1000:
                    # a comparison of EQUAL (or adjacent) constants decides a memory offset: the machine folds it to pick
                    # the cell, so a wrong fold moves the write although the value trees still evaluate correctly
                    x = operand()
                    y = rng.choice([x, x, (x + 1) % 2 ** 256, (x - 1) % 2 ** 256])
                    a.push(operand()).push(y).push(x).op(rng.choice(["GT", "SGT", "LT", "SLT", "EQ"]))
                    a.push(0x20).op("MUL").op("MSTORE")
                    a.push(rng.choice([0, 0x20])).op("MLOAD"); depth += 1
                elif r < 0.6:
                    a.op(rng.choice(ALU2)); depth -= 1
                elif r < 0.66:
                    a.op(rng.choice(ALU1))
                elif r < 0.7 and known_class:
                    opn = rng.choice(K4_OPS)
                    need = 3 if opn in ("ADDMOD", "MULMOD") else 2
                    while depth < need:
                        a.push(operand()); depth += 1
                    a.op(opn); depth -= need - 1
                elif r < 0.76:
                    m = rng.randrange(1, min(depth, 16) + 1)
                    if depth < 1000:
                        a.raw([0x7f + m]); depth += 1
                elif r < 0.8:
                    if depth >= 2:
                        a.raw([0x8f + rng.randrange(1, min(depth - 1, 16) + 1)])
                elif r < 0.83:
                    a.op("POP"); depth -= 1
                elif r < 0.86:
                    a.op(rng.choice(["PC", "CODESIZE"])); depth += 1
                elif r < 0.9:
                    off = rng.choice([0, 32, 64, 96, 0x80])
                    if rng.random() < 0.6:
                        a.push(off).op("MSTORE"); depth -= 1
                    else:
                        a.push(off).op("MLOAD"); depth += 1
                elif r < 0.97:
                    key = rng.choice(keys)
                    if known_class and rng.random() < 0.3:
                        a.push(key - 1 if key else 0).push(1 if key else 0).op("ADD")     # computed key
                    else:
                        a.push(key)
                    if rng.random() < 0.55:
                        a.op("SSTORE"); depth -= 1
                    else:
                        a.op("SLOAD"); depth += 1
                elif branches < max_branches:
                    branches += 1
                    name = "L%d" % labels
                    labels += 1
                    if rng.random() < 0.8:
                        # conditional: both outcomes are explored
                        a.push(rng.choice([0, 1, operand()])).push_label(name).op("JUMPI")
                        d0 = depth
                        if rng.random() < 0.5:
                            block(rng.randrange(1, 5))
                            # bring the fall-through back to the depth the jump-taken path has
                            while depth > d0:
                                a.op("POP"); depth -= 1
                            while depth < d0:
                                a.push(operand()); depth += 1
                        else:
                            block(rng.randrange(1, 4))
                            a.op(rng.choice(["STOP", "INVALID"]))
                            depth = d0
                        a.label(name)
                    else:
                        a.push_label(name).op("JUMP")
                        a.op("INVALID")
                        a.label(name)
        block(rng.choice([6, 12, 25, 40]))
        r = rng.random()
        if trunc_tail:
            # the code ends in a PUSHn with fewer than n immediate bytes (known class K5 of C07)
            nn = rng.randrange(1, 33)
            a.raw([0x5f + nn] + [rng.choice([0, 1, 0x5b, 0x60, 0xff, rng.randrange(256)]) for _ in range(rng.randrange(0, nn))])
        elif r < 0.5:
            a.op("STOP")
        elif r < 0.65 and depth >= 2:
            a.op(rng.choice(["RETURN", "REVERT"]))
        out.append(a.assemble())
    return out


def c08_programs(rng, bw, n):
    """loop-free programs with constant jump targets of every kind: valid, inside push data, at a non-JUMPDEST
    byte, out of range, >= 2^32 with valid low bits, computed from constants; dead code behind invalid jumps and
    after halting instructions"""
    out = []
    for _ in range(n):
        a = Asm()
        nblocks = rng.randrange(2, 7)
        depth = 0
        for bi in range(nblocks):
            # a little straight-line code
            for _ in range(rng.randrange(0, 5)):
                r = rng.random()
                if depth < 2 or r < 0.4:
                    a.push(rng.choice([0, 1, 2, 0x5b, 0x5b5b, 7, 2 ** 32 + 5])); depth += 1
                elif r < 0.7:
                    a.op(rng.choice(ALU2)); depth -= 1
                elif r < 0.85:
                    a.op(rng.choice(["CALLER", "CALLVALUE", "TIMESTAMP", "PC", "CODESIZE"])); depth += 1
                else:
                    a.op("POP"); depth -= 1
            kind = rng.randrange(11)
            jop = rng.choice(["JUMP", "JUMPI"])
            lab = "B%d" % (bi + 1)

            def cond():
                nonlocal depth
                if jop == "JUMPI":
                    a.push(rng.choice([0, 1])) if rng.random() < 0.7 else a.op("CALLVALUE")

            if kind <= 2:      # valid forward target
                cond(); a.push_label(lab).op(jop)
            elif kind == 3:    # target inside push data (a 0x5b immediate further on)
                cond(); a.push_label("D%d" % bi).op(jop)
                a.op("STOP")
                a.items.append(("l", "D%d" % bi))         # label WITHOUT emitting a JUMPDEST
                a.items.pop()                              # (keep assembler simple: use raw offset below)
                a.raw(b"\x61\x5b\x5b")
            elif kind == 4:    # non-JUMPDEST byte
                cond(); a.push(rng.randrange(0, 4)).op(jop)
            elif kind == 5:    # out of range
                cond(); a.push(rng.choice([0x7fff, 0xffff, 2 ** 31])).op(jop)
            elif kind == 6:    # >= 2^32 (also >= 2^64, >= 2^128, 2^255) whose low bits name a valid JUMPDEST (label of next block)
                cond(); a.items.append(("rhi", (lab, rng.choice([2 ** 32, 2 ** 32, 2 ** 64, 3 * 2 ** 64, 2 ** 128, 2 ** 255])))); a.op(jop)
            elif kind == 7:    # computed-constant target
                cond(); a.items.append(("rsplit", lab)); a.op(jop)
            elif kind == 8:    # halting instruction followed by dead code
                if depth >= 2 and rng.random() < 0.5:
                    a.op(rng.choice(["RETURN", "REVERT"]))
                else:
                    a.op(rng.choice(["STOP", "INVALID", "SELFDESTRUCT" if depth >= 1 else "STOP"])) if True else None
                a.push(1).push(1).op("SSTORE")
            elif kind == 9:    # unassigned byte as an instruction
                a.raw([rng.choice([0x0c, 0x21, 0x49, 0xa5, 0xef])])
                a.push(2).push(2).op("SSTORE")
            else:              # symbolic target
                cond(); a.op("CALLER").op(jop)
            if jop == "JUMP" and kind in (0, 1, 2, 6, 7):
                a.push(9).push(9).op("SSTORE")             # dead code behind an unconditional jump
            a.label(lab)
            depth = 0 if jop == "JUMP" else max(0, depth)
        a.op("STOP")
        out.append(assemble_ext(a))
    return out


def assemble_ext(a):
    """Asm.assemble plus two extra reference kinds: r64 = PUSH5 (2^32 + offset); rsplit = PUSH2 x PUSH2 y ADD with x+y = offset"""
    pos, labels = 0, {}
    size = {"b": None, "r": 3, "r64": 6, "rsplit": 7}

    def hi_len(hi):
        return 1 + (hi.bit_length() + 7) // 8

    for k, v in a.items:
        if k == "l":
            labels[v] = pos
        elif k == "b":
            pos += len(v)
        elif k == "rhi":
            pos += hi_len(v[1])
        else:
            pos += size[k]
    out = b""
    for k, v in a.items:
        if k == "b":
            out += v
        elif k == "r":
            out += push_n(labels.get(v, 0xffff), 2)
        elif k == "r64":
            out += push_n(2 ** 32 + labels.get(v, 0xffff), 5)
        elif k == "rhi":
            out += push_n(v[1] + labels.get(v[0], 0xffff), hi_len(v[1]) - 1)
        elif k == "rsplit":
            t = labels.get(v, 0xffff)
            x = t // 2
            out += push_n(x, 2) + push_n(t - x, 2) + bytes([0x01])
    return out


# ----------------------------------------------------------------------------------------------
# idiom compiler: ground-truth storage layouts -> bytecode in the style compilers emit

ADDR_MASK = 2 ** 160 - 1


def hash_lookalikes():
    """constants that are NOT keccak(small slot) but share much with one: the low 128 bits (high half differs), everything
    but the top bit, everything but the lowest bit"""
    import keccak
    out = []
    for n in (0, 1, 3, 7):
        h = keccak.keccak_of_slot(n)
        out += [(1 << 128) + (h % (1 << 128)), h ^ (1 << 255), h ^ 1]
    return out


def special_hash_slots():
    """small slot numbers whose keccak has an unusual shape: leading zero byte (480, 581, 732 are the first), and ordinary ones"""
    return [479, 480, 481, 581, 732]


class Var:
    """kind: 'word' | 'address' | 'mapping' | 'dynarray' | 'packed'
       mapping: keys = list of 'word' | 'address' (depth = len), value = 'word' | 'address'
       packed: fields = list of (offset_bits, size_bits) at byte boundaries
       access: 'read' | 'write' | 'both'"""

    def __init__(self, kind, slot, access="both", keys=None, value="word", fields=None, style="shl", srcs=None):
        self.kind, self.slot, self.access = kind, slot, access
        self.keys, self.value, self.fields, self.style = keys or [], value, fields or [], style
        self.srcs = srcs or []       # packed: per field, where a written value comes from: "arg" | "caller" | "bool"


def _arg(a, i):
    """the i-th 32-byte call-data argument"""
    a.push(4 + 32 * i).op("CALLDATALOAD")


def _ret_top(a):
    a.push(0).op("MSTORE").push(0x20).push(0).op("RETURN")


def _mapping_slot(a, v):
    """leaves keccak(key_d . ... keccak(key_1 . slot)) on the stack"""
    a.push(v.slot)
    for i, kk in enumerate(v.keys):
        # stack: current slot
        a.push(0x20).op("MSTORE")                     # mstore(0x20, slot)
        _arg(a, i)
        if kk == "address":
            a.push(ADDR_MASK).op("AND")
        a.push(0).op("MSTORE")                        # mstore(0, key)
        a.push(0x40).push(0).op("SHA3")


def compile_branch(a, v, rng, stop=True):
    modes = {"read": ["r"], "write": ["w"], "both": ["r", "w"]}[v.access]
    for mode in modes:
        if v.kind in ("word", "address"):
            if mode == "r":
                a.push(v.slot).op("SLOAD")
                if v.kind == "address":
                    a.push(ADDR_MASK).op("AND")
                a.push(0).op("MSTORE")
            else:
                _arg(a, 0)
                if v.kind == "address":
                    a.push(ADDR_MASK).op("AND")
                a.push(v.slot).op("SSTORE")
        elif v.kind == "mapping":
            if mode == "r":
                _mapping_slot(a, v)
                a.op("SLOAD")
                if v.value == "address":
                    a.push(ADDR_MASK).op("AND")
                a.push(0).op("MSTORE")
            else:
                _arg(a, len(v.keys))
                if v.value == "address":
                    a.push(ADDR_MASK).op("AND")
                _mapping_slot(a, v)
                a.op("SSTORE")
        elif v.kind == "dynarray":
            def data_start():
                if v.style == "folded":       # what an optimising compiler emits: keccak(slot) as a constant
                    import keccak
                    a.push(keccak.keccak_of_slot(v.slot))
                else:
                    a.push(v.slot).push(0).op("MSTORE").push(0x20).push(0).op("SHA3")
            if mode == "r":
                a.push(v.slot).op("SLOAD").op("POP")          # length
                data_start()
                _arg(a, 0)
                a.op("ADD").op("SLOAD").push(0).op("MSTORE")
            else:
                _arg(a, 1)
                data_start()
                _arg(a, 0)
                a.op("ADD").op("SSTORE")
        elif v.kind == "packed":
            for fi, (off, size) in enumerate(v.fields):
                mask = 2 ** size - 1
                if mode == "r":
                    a.push(v.slot).op("SLOAD")
                    if off:
                        if v.style == "shl":
                            a.push(off).op("SHR")
                        else:
                            a.push(2 ** off).raw([0x90]).op("DIV")       # SWAP1 DIV
                    a.push(mask).op("AND").push(0x20 * fi).op("MSTORE")
                else:
                    # sstore(slot, (sload(slot) & ~(mask << off)) | ((arg & mask) << off))
                    src = v.srcs[fi] if fi < len(v.srcs) else "arg"
                    if src == "caller":
                        a.op("CALLER")               # an address-typed source
                    elif src == "bool":
                        _arg(a, fi)
                        a.op("ISZERO").op("ISZERO")  # a boolean source
                    else:
                        _arg(a, fi)
                    a.push(mask).op("AND")
                    if off:
                        if v.style == "shl":
                            a.push(off).op("SHL")
                        else:
                            a.push(2 ** off).op("MUL")
                    a.push(v.slot).op("SLOAD")
                    a.push((2 ** 256 - 1) ^ (mask << off)).op("AND")
                    a.op("OR")
                    a.push(v.slot).op("SSTORE")
    if stop:
        a.op("STOP")


def compile_layout(vs, rng, dispatcher="selector"):
    """one dispatch branch per variable"""
    a = Asm()
    if dispatcher == "sequence":
        # no dispatcher at all: the fragments run one after the other on ONE path (adding code behind existing code);
        # both read the same call-data arguments, the scratch memory and the environment
        for v in vs:
            compile_branch(a, v, rng, stop=False)
        a.op("STOP")
        return a.assemble()
    if dispatcher == "selector":
        a.push(0).op("CALLDATALOAD").push(0xe0).op("SHR")
        for i, v in enumerate(vs):
            a.raw([0x80]).push(0x1000 + i).op("EQ").push_label("V%d" % i).op("JUMPI")
        a.op("STOP")
    else:   # chain of conditional jumps on independent conditions
        for i, v in enumerate(vs):
            _arg(a, 7 + i)
            a.push_label("V%d" % i).op("JUMPI")
        a.op("STOP")
    for i, v in enumerate(vs):
        a.label("V%d" % i)
        compile_branch(a, v, rng)
    return a.assemble()


def random_vars(rng, n, slots=None):
    """n ground-truth variables at distinct slots"""
    pool = [0, 1, 2, 3, 4, 5, 6, 7, 8, 9, 10, 11, 17, 100, 255, 256, 1000, 2 ** 16, 2 ** 64 + 3, 2 ** 128 + 7,
            2 ** 200 + 11, 2 ** 255 + 1,
            # slot numbers whose 32 bytes read as left-aligned printable text ("A", "balances", "owner")
            0x41 << 248, int.from_bytes(b"balances".ljust(32, b"\0"), "big"), int.from_bytes(b"owner".ljust(32, b"\0"), "big")]
    pool += special_hash_slots() + hash_lookalikes()[:6]
    slots = slots or rng.sample(pool, n)
    out = []
    for s in slots:
        k = rng.choice(["word", "address", "mapping", "mapping", "dynarray", "packed", "packed", "member"])
        access = rng.choice(["read", "write", "both"])
        if k == "member":
            # one typed member of a packed word, the only part of the word the code ever touches (owner / flag):
            # written by read-modify-write from an address or boolean source
            f, src = rng.choice([((0, 160), "caller"), ((96, 160), "caller"), ((0, 8), "bool"), ((160, 8), "bool"), ((0, 160), "arg")])
            out.append(Var("packed", s, access, fields=[f], style=rng.choice(["shl", "mul"]), srcs=[src]))
            continue
        if k == "mapping":
            d = rng.randrange(1, 5)
            out.append(Var("mapping", s, access, keys=[rng.choice(["word", "address"]) for _ in range(d)],
                           value=rng.choice(["word", "address"])))
        elif k == "packed":
            nf = rng.randrange(2, 7)
            cuts = sorted(rng.sample(range(1, 32), nf - 1))
            if rng.random() < 0.3:          # an address-sized field at one end (the usual owner + flags word)
                cuts = rng.choice([[20], [12], [20, 21], [11, 12]])
                nf = len(cuts) + 1
            bounds = [0] + cuts + [32]
            fields = [(8 * bounds[i], 8 * (bounds[i + 1] - bounds[i])) for i in range(nf)]
            if rng.random() < 0.25:         # only some fields of the word are ever touched (read-modify-write of one member)
                keep = sorted(rng.sample(range(nf), rng.randrange(1, nf)))
                fields = [fields[i] for i in keep]
            srcs = ["caller" if (sz == 160 and rng.random() < 0.6) else "bool" if (sz == 8 and rng.random() < 0.4) else "arg"
                    for _, sz in fields]
            out.append(Var("packed", s, access, fields=fields, style=rng.choice(["shl", "mul"]), srcs=srcs))
        elif k == "dynarray" and s < 10000 and rng.random() < 0.6:
            out.append(Var(k, s, access, style="folded"))
        else:
            out.append(Var(k, s, access))
    return out


def gvar_term(v):
    if v.kind == "word":
        return "(GWord %d)" % v.slot
    if v.kind == "address":
        return "(GAddr %d)" % v.slot
    if v.kind == "mapping":
        return "(GMap %d [%s] %s)" % (v.slot, ";".join("true" if k == "address" else "false" for k in v.keys),
                                      "true" if v.value == "address" else "false")
    if v.kind == "dynarray":
        return "(GDyn %d)" % v.slot
    return "(GPacked %d [%s])" % (v.slot, ";".join("(%d,%d)" % f for f in v.fields))


def mask_shift_programs(rng, bw, n):
    """mask-and-shift code with shift amounts and mask positions anywhere in 0..2^256"""
    out = []
    shifts = [0, 1, 7, 8, 9, 16, 96, 128, 160, 200, 248, 255, 256, 257, 300, 512, 2 ** 16, 2 ** 32, 2 ** 64 - 1, 2 ** 64,
              2 ** 255, 2 ** 256 - 1]
    for _ in range(n):
        a = Asm()
        for _ in range(rng.randrange(1, 5)):
            slot = rng.randrange(0, 6)
            kind = rng.randrange(7)
            width = rng.choice([1, 8, 16, 32, 64, 128, 160, 192, 255, 256])
            mask = (2 ** width - 1) if width < 256 else 2 ** 256 - 1
            sh = rng.choice(shifts) if rng.random() < 0.5 else 8 * rng.randrange(0, 40)
            if kind == 0:      # (sload >> sh) & mask
                a.push(slot).op("SLOAD").push(sh).op("SHR").push(mask).op("AND").push(slot + 10).op("SSTORE")
            elif kind == 1:    # sload & (mask << sh)
                a.push(slot).op("SLOAD").push((mask << (sh % 300)) % 2 ** 256).op("AND").push(slot + 10).op("SSTORE")
            elif kind == 2:    # (sload & mask) * 2^k
                # the multiplier is a power of two (shift-in idiom) or ANY constant: 2^k+-1, > 2^255, 2^256-1, 6, 10, ...
                mul = 2 ** (sh % 256) if rng.random() < 0.6 else rng.choice(bw + [6, 10, 12, 100, 1000, 2 ** 255 + 1, 2 ** 256 - 1])
                a.push(slot).op("SLOAD").push(mask).op("AND").push(mul).op("MUL").push(slot + 10).op("SSTORE")
            elif kind == 3:    # (sload & mask) << sh
                a.push(slot).op("SLOAD").push(mask).op("AND").push(sh).op("SHL").push(slot + 10).op("SSTORE")
            elif kind == 4:    # or of two shifted fields (possibly overlapping / unordered)
                a.push(slot).op("SLOAD").push(mask).op("AND").push(sh).op("SHL")
                a.push(slot + 1).op("SLOAD").push(rng.choice([0xff, 0xffff, ADDR_MASK])).op("AND").push(rng.choice(shifts)).op("SHL")
                a.op("OR").push(slot + 10).op("SSTORE")
            elif kind == 5:    # read-modify-write with an arbitrary (non-contiguous) mask
                a.push(0).op("CALLDATALOAD").push(mask).op("AND").push(sh).op("SHL")
                a.push(slot).op("SLOAD").push(rng.choice(bw)).op("AND").op("OR").push(slot).op("SSTORE")
            else:              # division style extraction
                dv = 2 ** (sh % 256) if rng.random() < 0.6 else rng.choice(bw + [6, 10, 12, 100, 1000, 2 ** 255 + 1, 2 ** 256 - 1])
                a.push(slot).op("SLOAD").push(dv).raw([0x90]).op("DIV").push(mask).op("AND").push(slot + 10).op("SSTORE")
        a.op("STOP")
        out.append(a.assemble())
    return out


def hashing_programs(rng, bw, n, with_storage):
    """keccak(key || constant) and keccak(constant) + i computations, without (or mixed with) storage accesses"""
    out = []
    for _ in range(n):
        a = Asm()
        for _ in range(rng.randrange(1, 6)):
            c = rng.choice([0, 1, 2, 3, 5, 7, 100, 9999, 2 ** 64, 2 ** 200])
            kind = rng.randrange(6)
            if kind == 0:      # keccak(calldata || c) used as a plain value
                a.push(c).push(0x20).op("MSTORE").push(4).op("CALLDATALOAD").push(0).op("MSTORE").push(0x40).push(0).op("SHA3")
                a.push(0x60).op("MSTORE")
            elif kind == 1:    # keccak(c) + i
                a.push(c).push(0).op("MSTORE").push(0x20).push(0).op("SHA3").push(rng.randrange(5)).op("ADD").push(0x80).op("MSTORE")
            elif kind == 2:    # masks and arithmetic
                a.push(4).op("CALLDATALOAD").push(ADDR_MASK).op("AND").push(rng.choice(bw)).op("ADD").op("POP")
            elif kind == 3 and with_storage:
                s = rng.randrange(0, 8)
                if rng.random() < 0.5:
                    a.push(s).op("SLOAD").op("POP")
                else:
                    a.push(4).op("CALLDATALOAD").push(s).op("SSTORE")
            elif kind == 4 and with_storage:   # hash-shaped VALUE stored at a literal slot (finding K3's shape)
                a.push(c).push(0x20).op("MSTORE").push(4).op("CALLDATALOAD").push(0).op("MSTORE").push(0x40).push(0).op("SHA3")
                a.push(rng.randrange(0, 4)).op("SSTORE")
            else:              # log / return the hash
                a.push(c).push(0).op("MSTORE").push(0x20).push(0).op("SHA3").push(0).op("MSTORE").push(0x20).push(0).op("LOG0")
        a.op("STOP")
        out.append(a.assemble())
    return out


def hostile_programs(rng, bw, n):
    """attacker-style inputs: boundary constants used as offsets, sizes, shifts, jump targets, slot arithmetic and
    mapping projections; truncated trailing PUSHes; raw random bytes; deep DUP/MUL towers; SLOAD towers"""
    out = []
    big = [2 ** 64 - 1, 2 ** 64, 2 ** 63, 2 ** 56, 2 ** 56 - 1, 2 ** 32, 2 ** 255, 2 ** 256 - 1, 2 ** 256 - 32, 2 ** 248, 255, 256, 257, 0]
    for _ in range(n):
        kind = rng.randrange(12)
        a = Asm()
        if kind == 0:
            out.append(bytes(rng.randrange(256) for _ in range(rng.choice([1, 2, 5, 20, 100, 400]))))
            continue
        if kind == 1:      # memory / copy operations with extreme offsets and sizes
            for _ in range(rng.randrange(1, 5)):
                opn = rng.choice(["SHA3", "MLOAD", "MSTORE", "MSTORE8", "CALLDATACOPY", "CODECOPY", "RETURNDATACOPY", "EXTCODECOPY",
                                  "RETURN", "REVERT", "LOG0", "LOG2", "CREATE", "CREATE2", "CALL", "STATICCALL", "DELEGATECALL", "CALLCODE"])
                need = ARITY.get(opn, (2, 0))[0] if opn in ARITY else {"RETURN": 2, "REVERT": 2, "LOG0": 2, "LOG2": 4}[opn]
                for _ in range(need):
                    a.push(rng.choice(big) if rng.random() < 0.7 else rng.choice(bw))
                a.op(opn)
                if opn in ("SHA3", "MLOAD", "CREATE", "CREATE2", "CALL", "STATICCALL", "DELEGATECALL", "CALLCODE"):
                    a.push(rng.randrange(4)).op("SSTORE")
        elif kind == 2:    # shifts / exponent / byte with extreme amounts reaching folds (jump targets, memory offsets)
            a.push(rng.choice(bw)).push(rng.choice(big)).op(rng.choice(["SHL", "SHR", "SAR", "EXP", "BYTE", "SIGNEXTEND", "DIV", "SDIV", "SMOD"]))
            a.op(rng.choice(["JUMP", "MLOAD", "SLOAD", "POP"])) if rng.random() < 0.8 else a.push(0).op("MSTORE")
            a.op("STOP")
        elif kind == 3:    # mapping projection / slot arithmetic with huge constants
            a.push(rng.choice(big)).push(0x20).op("MSTORE").push(4).op("CALLDATALOAD").push(0).op("MSTORE").push(0x40).push(0).op("SHA3")
            a.push(rng.choice(big)).op(rng.choice(["ADD", "MUL", "SUB"])).op("SLOAD").op("POP")
            a.push(rng.choice(big)).op("CALLDATALOAD").push(rng.choice(big)).op("SSTORE")
        elif kind == 4:    # mask-and-shift with extreme positions
            out.append(mask_shift_programs(rng, bw, 1)[0])
            continue
        elif kind == 5:    # truncated trailing PUSH after ordinary code
            a.raw(random_program(rng, bw, n_ops=8, hostile=0.1))
            nb = rng.randrange(1, 33)
            a.raw([0x5f + nb] + [rng.randrange(256) for _ in range(rng.randrange(0, nb))])
        elif kind == 6:    # value towers
            a.push(3)
            for _ in range(rng.choice([8, 20, 70, 300])):
                a.raw([0x80]).op(rng.choice(["MUL", "ADD", "EXP", "SHL"]))
            a.push(0).op("SSTORE")
        elif kind == 7 and rng.random() < 0.5:    # SLOAD / SHA3 towers
            a.push(rng.choice(big))
            for _ in range(rng.choice([4, 16, 40, 80])):
                a.op("SLOAD") if rng.random() < 0.7 else a.push(0).op("MSTORE").push(0x20).push(0).op("SHA3")
            a.push(1).op("SSTORE")
        elif kind == 7:    # doubling towers through memory: h = op(h ++ h), unrolled past 64 rounds (a size that doubles every
            #                 round overflows a 64-bit counter unless every constructor respects the value-size limit)
            a.push(0).op(rng.choice(["SLOAD", "CALLDATALOAD"]))
            rounds = rng.choice([12, 40, 66, 70, 90])
            wrap = rng.choice(["SHA3", "SHA3", "MLOAD2", "ADD"])
            for _ in range(rounds):
                a.raw([0x80]).push(0).op("MSTORE").push(0x20).op("MSTORE")
                if wrap == "SHA3":
                    a.push(0x40).push(0).op("SHA3")
                elif wrap == "MLOAD2":
                    a.push(0).op("MLOAD").push(0x20).op("MLOAD").op("OR")
                else:
                    a.push(0).op("MLOAD").push(0x20).op("MLOAD").op("ADD")
            a.push(0).op("SSTORE")
        elif kind == 8:    # call-data sizes and offsets
            a.push(rng.choice(big)).push(rng.choice(big)).push(rng.choice(big)).op("CALLDATACOPY")
            a.push(rng.choice(big)).op("CALLDATALOAD").push(rng.choice(big)).op("AND").push(0).op("SSTORE")
        elif kind == 9:    # stack overflow loop
            a.label("L").push(1).push(1).push(1).push_label("L").op("JUMP")
        elif kind == 10:   # mutated real contract
            real = real_contracts()
            if real:
                c = bytearray(bytes.fromhex(rng.choice(real)[1]))
                for _ in range(rng.randrange(1, 8)):
                    i = rng.randrange(len(c))
                    c[i] = rng.choice([0xff, 0x00, 0x7f, 0x1b, 0x20, 0x54, rng.randrange(256)])
                if rng.random() < 0.3:
                    c = c[:rng.randrange(1, len(c))]
                out.append(bytes(c))
                continue
        else:
            a.raw(random_program(rng, bw, n_ops=rng.choice([10, 40]), hostile=0.3))
        if rng.random() < 0.5:
            a.op("STOP")
        out.append(a.assemble() or b"\x00")
    return out


def evidence_programs(rng, bw, n):
    """programs whose slots receive 2-5 pieces of typing evidence of different kinds (address mask, boolean
    negation, signed / unsigned arithmetic, array-like use of the same slot, copies between slots)"""
    out = []
    for _ in range(n):
        a = Asm()
        slots = rng.sample(range(0, 6), rng.randrange(1, 4))
        for s in slots:
            for _ in range(rng.randrange(2, 6)):
                k = rng.randrange(15)
                if k >= 13:     # an element of the dynamic array at slot s is the value loaded from another slot: the slots' types
                    #              refer to each other (recursive types shared between slots)
                    t = rng.choice(slots)
                    a.push(s).push(0).op("MSTORE").push(t).op("SLOAD").push(0x20).push(0).op("SHA3")
                    a.push(0x20 * rng.randrange(0, 3)).op("CALLDATALOAD").op("ADD").op("SSTORE")
                elif k >= 10:     # one value used twice: stored as it is, and stored again under a second operation
                    #              (the shared sub-value receives judgements from two different rules)
                    def unop(bias):
                        r = rng.choice(bias + list(range(7)))
                        if r == 0:
                            a.op("ISZERO")
                        elif r == 1:
                            a.push(rng.choice([5, 0xff, 2 ** 160 - 1, 2 ** 255])).op(rng.choice(["LT", "GT", "SLT", "EQ"]))
                        elif r == 2:
                            a.push(rng.choice([0xff, 0xffff, ADDR_MASK])).op("AND")
                        elif r == 3:
                            a.push(1).op(rng.choice(["ADD", "SUB", "MUL"]))
                        elif r == 4:
                            a.push(3).op(rng.choice(["SDIV", "SMOD", "DIV"]))
                        elif r == 5:
                            a.op("NOT")
                        else:
                            a.push(rng.choice([0, 1, 31])).op("SIGNEXTEND")
                    if rng.random() < 0.5:
                        a.push(4).op("CALLDATALOAD")
                    else:
                        a.push(rng.choice(slots)).op("SLOAD")
                    unop([1, 1, 1, 0])              # mostly a comparison / boolean first ...
                    a.raw([0x80])                       # DUP1
                    a.push(s).op("SSTORE")
                    unop([0, 0, 0, 1, 3, 4])        # ... then a negation or arithmetic on the very same value
                    a.push(rng.choice(slots + [s + 8])).op("SSTORE")
                elif k == 0:      # address-masked store
                    a.op("CALLER").push(ADDR_MASK).op("AND").push(s).op("SSTORE")
                elif k == 1:    # boolean
                    a.push(4).op("CALLDATALOAD").op("ISZERO").push(s).op("SSTORE")
                elif k == 2:    # signed arithmetic on the loaded value
                    a.push(s).op("SLOAD").push(3).op("SDIV").op("POP")
                elif k == 3:    # unsigned arithmetic
                    a.push(s).op("SLOAD").push(1).op("ADD").push(s).op("SSTORE")
                elif k == 4:    # the slot as a dynamic array: length + element access
                    a.push(s).push(0).op("MSTORE").push(0x20).push(0).op("SHA3").push(4).op("CALLDATALOAD").op("ADD").op("SLOAD").op("POP")
                elif k == 5:    # the slot as a mapping
                    a.push(s).push(0x20).op("MSTORE").op("CALLER").push(0).op("MSTORE").push(0x40).push(0).op("SHA3").op("SLOAD").op("POP")
                elif k == 6:    # copy from another slot (equality)
                    a.push(rng.choice(slots)).op("SLOAD").push(s).op("SSTORE")
                elif k == 7:    # byte-sized field
                    a.push(s).op("SLOAD").push(0xff).op("AND").op("POP")
                elif k == 8:    # selector-sized
                    a.push(s).op("SLOAD").push(0xe0).op("SHR").push(0xffffffff).op("AND").op("POP")
                else:           # comparison
                    a.push(s).op("SLOAD").push(rng.choice(bw)).op(rng.choice(["LT", "SLT", "EQ"])).op("POP")
        a.op("STOP")
        out.append(a.assemble())
    return out


def cyclic_evidence_programs(rng, n):
    """storage read-mask-write patterns that create cyclic type evidence (C03's quantifier): values copied between 2-4
    slots in a cycle, with masks / shifts applied on the way (the 36-byte witness of the known non-terminating
    unification is the first shape: caller -> slot a; (slot a & address mask) -> slot b; slot b -> slot a)."""
    out = []
    masks = [0xff, 0xffff, 0xffffffff, 2 ** 64 - 1, 2 ** 128 - 1, ADDR_MASK, 2 ** 256 - 1]
    for _ in range(n):
        a = Asm()
        k = rng.randrange(2, 5)
        slots = rng.sample(range(0, 8), k)
        seed = rng.randrange(4)
        if seed == 0:
            a.op("CALLER").push(slots[0]).op("SSTORE")
        elif seed == 1:
            a.push(4).op("CALLDATALOAD").push(slots[0]).op("SSTORE")
        elif seed == 2:
            a.op("CALLER").push(ADDR_MASK).op("AND").push(slots[0]).op("SSTORE")
        for i in range(k):
            src, dst = slots[i], slots[(i + 1) % k]
            a.push(src).op("SLOAD")
            r = rng.random()
            if r < 0.55:
                m = rng.choice(masks)
                if rng.random() < 0.5:
                    a.push(m).op("AND")
                else:
                    a.push(m)
                    a.raw([0x90])       # SWAP1
                    a.op("AND")
            elif r < 0.75:
                sh = rng.choice([8, 96, 128, 160])
                a.push(sh).op("SHR").push(rng.choice(masks)).op("AND")
            elif r < 0.85:
                a.op("ISZERO").op("ISZERO")
            if rng.random() < 0.3:
                # read-modify-write into the destination (packed field)
                sh = rng.choice([0, 8, 128, 160])
                a.push(sh).op("SHL").push(dst).op("SLOAD").push((2 ** 256 - 1) ^ (ADDR_MASK << sh) if sh + 160 <= 256 else 0).op("AND").op("OR")
            a.push(dst).op("SSTORE")
        a.op("STOP")
        out.append(a.assemble())
    return out


def dead_storage_programs(rng, bw, n):
    """storage code that no path executes: behind an unconditional JUMP to a bad target (beyond the code, not a
    JUMPDEST, inside push data, >= 2^32 / 2^64 with innocent low bits) -- meaningful in permissive mode, where the
    error is dropped but the thread must still end -- or behind a halting instruction.  A live prefix may touch
    other slots.  Returns (code, needs_permissive)."""
    out = []
    for _ in range(n):
        a = Asm()
        live = []
        for _ in range(rng.randrange(0, 3)):
            s = rng.choice([1, 2, 3, 2 ** 64 + 1])
            live.append(s)
            if rng.random() < 0.5:
                a.push(rng.choice(bw)).push(s).op("SSTORE")
            else:
                a.push(s).op("SLOAD").op("POP")
        kind = rng.randrange(8)
        perm = False
        if kind < 5:
            perm = True
            t = rng.choice([0xff, 0xffff, 2 ** 32 + 3, 2 ** 64 + 5, 2 ** 255, 2 ** 256 - 1, 1, 2])
            a.push(t).op("JUMP")
        else:
            if kind == 6:
                a.push(0).push(0)
            if kind == 7:
                a.push(0)
            a.op({5: rng.choice(["STOP", "INVALID"]), 6: rng.choice(["RETURN", "REVERT"]), 7: "SELFDESTRUCT"}[kind])
        # the dead part
        for _ in range(rng.randrange(1, 4)):
            s = rng.choice([7, 9, 11, 2 ** 128 + 7])
            r = rng.randrange(4)
            if r == 0:
                a.push(0x2a).push(s).op("SSTORE")
            elif r == 1:
                a.push(s).op("SLOAD").op("POP")
            elif r == 2:      # mapping write: keccak(caller . s)
                a.op("CALLER").push(0).op("MSTORE").push(s).push(0x20).op("MSTORE").push(0x40).push(0).op("SHA3")
                a.push(1)
                a.raw([0x90])
                a.op("SSTORE")
            else:
                a.op("JUMPDEST").push(s).op("SLOAD").push(s + 1).op("SSTORE")
        a.op("STOP")
        out.append((a.assemble(), perm))
    return out


def recursive_type_programs(rng, n):
    """2-5 slots used as dynamic arrays (or mappings) whose elements are the values loaded from other slots of the group:
    the slots' types refer to each other along a random functional graph, so cycles are entered from several points."""
    out = []
    for _ in range(n):
        a = Asm()
        k = rng.randrange(2, 6)
        slots = rng.sample(range(0, 8), k)
        for i, s in enumerate(slots):
            t = rng.choice(slots)
            if rng.random() < 0.8:      # array at s whose element is sload(t)
                a.push(s).push(0).op("MSTORE").push(t).op("SLOAD").push(0x20).push(0).op("SHA3")
                a.push(0x20 * i).op("CALLDATALOAD").op("ADD").op("SSTORE")
            else:                       # mapping at s whose value is sload(t)
                a.push(s).push(0x20).op("MSTORE").push(0x20 * i).op("CALLDATALOAD").push(0).op("MSTORE")
                a.push(t).op("SLOAD").push(0x40).push(0).op("SHA3").op("SSTORE")
        a.op("STOP")
        out.append(a.assemble())
    return out


def trampoline_programs(rng, n):
    """one instruction reached by several paths in different machine states: a shared `JUMPDEST; JUMP` (or JUMPI / POP /
    SSTORE) trampoline entered after JUMPI forks with different stacks, so that different errors (bad targets of
    different kinds, stack underflow) or an error and a success arise at the SAME offset."""
    out = []
    for _ in range(n):
        a = Asm()
        k = rng.randrange(2, 5)          # entry paths
        for i in range(k - 1):
            a.op("CALLDATASIZE").push_label("E%d" % (i + 1)).op("JUMPI")
            _tramp_entry(a, rng, i)
        _tramp_entry(a, rng, k - 1, last=True)
        for i in range(1, k):
            a.label("E%d" % i)
            _tramp_entry(a, rng, 100 + i, last=True)
        a.label("T")
        a.op(rng.choice(["JUMP", "JUMP", "JUMPI", "POP", "JUMPI"]))
        a.op("STOP")
        a.label("OK")
        a.push(1).push(0).op("SSTORE").op("STOP")
        a.label("OK2")                                       # a second valid landing with different code behind it
        a.push(2).push(1).op("SSTORE").op("CALLVALUE").op("POP").op("STOP")
        out.append(a.assemble())
    return out


def _tramp_entry(a, rng, i, last=False):
    r = rng.randrange(9)
    if r >= 6:
        # a condition below a VALID target: at a shared JUMPI each entry path brings its own target (OK or OK2), and a
        # target resolved for one path says nothing about the next path's
        if r == 6:
            a.push(rng.choice([0, 1]))
        else:
            a.op("CALLDATASIZE")
        a.push_label(rng.choice(["OK", "OK2"]))
    elif r == 0:
        pass                                             # empty stack: underflow at the trampoline
    elif r == 1:
        a.push(rng.choice([0xff, 0xffff, 2 ** 32 + 5, 2 ** 64 + 7, 2 ** 256 - 1]))     # out of range
    elif r == 2:
        a.push(rng.choice([1, 2, 3]))                    # not a JUMPDEST
    elif r == 3:
        a.push_label(rng.choice(["OK", "OK2"]))          # a valid target
    elif r == 4:
        a.push(0).push(rng.choice([0xff, 1]))            # two operands (matters when the trampoline is a JUMPI)
    else:
        a.push_label("OK").push(1)
    a.push_label("T").op("JUMP")


def string_shape_programs(rng, n):
    """a slot that is packed like solidity's short `bytes` / `string` header (a flag bit, a 7-bit length, the data bits: spans
    (0,1) (1,7) (8,248) and variations) AND used as the length slot of a dynamic array; the span elements are stable values
    (call-data words) that also occur in other stored values, so which occurrence is registered first depends on the order
    in which storage / memory are walked."""
    out = []
    for _ in range(n):
        a = Asm()
        s = rng.randrange(0, 4)
        other = s + 5
        m1, m2 = rng.choice([(0x01, 0xfe), (0x01, 0xfe), (0xff, 2 ** 256 - 256), (0x01, 2 ** 256 - 2), (0x03, 0xfc)])
        # A = cd[0] & m1 ; B = cd[32] & m2
        a.push(m1).push(0).op("CALLDATALOAD").op("AND")
        a.push(m2).push(0x20).op("CALLDATALOAD").op("AND")
        order = rng.randrange(3)
        if order != 2:
            a.raw([0x80]).push(other).op("SSTORE")            # B (or A) also stored on its own
        if order == 1:
            a.raw([0x81]).push(other + 1).op("SSTORE")
        a.op("OR").push(s).op("SSTORE")                       # sstore(s, A | B)
        # slot s as the length slot of a dynamic array
        a.push(s).push(0).op("MSTORE")
        a.op(rng.choice(["CALLER", "CALLVALUE"])).push(0x20).push(0).op("SHA3").push(0x40).op("CALLDATALOAD").op("ADD").op("SSTORE")
        if rng.random() < 0.4:
            a.push(s).op("SLOAD").push(1).op("AND").op("POP")
        a.op("STOP")
        out.append(a.assemble())
    return out
