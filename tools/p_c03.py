"""C03 -- analysis always halts, and execution stays within the configured bounds."""
import collections
import json

import gen
import vlib

MANIFEST = {
    "text": "Coq theorems over the model of the symbolic VM (main loop, advance, JUMP/JUMPI, fork tracker) for EVERY program, every "
            "configuration with a positive iteration limit, every watchdog answer stream and whatever the opcode bodies do: per-thread "
            "visit counts <= iteration limit, per-JUMPDEST forks <= fork limit, threads ever created <= 1 + F * #JUMPDEST, a thread over "
            "the gas limit is never scheduled again, and VM::execute ends within (1+F*len)*(I*len+1)+1 main-loop iterations (strictly "
            "decreasing potential). The straight-line opcode bodies inside the model are regenerated from the Rust source on every run "
            "(T9), the byte table too (T1); the hand-written machine is tied to the code by a correspondence run comparing every "
            "retired state, visit counters, fork counters, per-thread gas, errors and poll counts, and the bounds are also evaluated "
            "directly on the implementation's output. Halting of the whole analysis (lifting, inference, unification) is searched for "
            "with a poll-budget watchdog on the same programs. END TO END (props/C03_pipeline.v, composed model coq/Pipeline.v): "
            "pipeline_halts -- for every byte string (<= 2^32 bytes), configuration with iteration limit >= 1, hash function, table "
            "and order mode, under the fuel record {f_vm > (1+F*len)*(I*len+1), f_rounds >= |type variables| + 2} a program whose "
            "judgement set is packed-free never yields one of the model's out-of-fuel results (PFuelVm, PFuelUnify, PFuelFind, "
            "abi_type_for's EOutOfFuel): it returns a layout, a structured error or a watchdog stop; pipeline_vm_halts / "
            "pipeline_tc_halts are the two halves.",
    "note": "Trusted: Coq kernel + vm_compute; translator T1/T9; harness; hooks H2/H3 (deterministic ids, per-thread gas log). The "
            "termination theorem covers the VM; for the type checker only lifting/registration/rules are structurally terminating -- "
            "unification's termination is searched, not yet proved (see DESIGN.md C03/C14).",
    "technique": "Coq proof (invariant + decreasing potential by induction over main-loop iterations) on a model with translated opcode "
                 "bodies; differential correspondence evaluated inside Coq; budgeted search for non-halting analyses",
}

CODES = {1: "result class differs", 2: "errors differ", 3: "retired states differ", 4: "fork counters differ",
         5: "per-thread gas at retirement differs", 6: "queued thread count differs", 7: "poll count differs",
         9: "model ran out of fuel",
         20: "a thread executed an instruction more often than the iteration limit",
         21: "a jump destination was forked to more often than the fork limit",
         22: "more threads than 1 + fork_limit * #JUMPDEST", 23: "a thread continued after exceeding the gas limit",
         26: "a retired thread's gas account is below the minimum gas of its own path from the start (gas lost at a fork?)",
         24: "execution did not halt within the poll budget", 25: "threads left in the queue after a normal return",
         26: "panic"}


def inputs(ctx):
    rng = ctx.rng
    bw = gen.boundary_words()
    progs = collections.OrderedDict()

    def add(code, cfg, cls):
        progs.setdefault((bytes(code), cfg), cls)

    try:
        for l in open(vlib.ROOT + "/corpus/C03.txt"):
            l = l.split("#")[0].strip()
            if l:
                f = l.split()
                add(bytes.fromhex(f[0]), tuple(int(x) for x in f[1:7]), "corpus")
    except FileNotFoundError:
        pass
    n = 500 if ctx.quick else 6000
    for code in gen.loop_programs(rng, bw, n):
        cfg = (rng.choice([300, 1000, 5000, 100000, 30000000]), rng.randrange(1, 13), rng.randrange(1, 61),
               rng.choice([5, 50, 250]), rng.choice([32, 394]), rng.randrange(2))
        add(code, cfg, "loops")
    for _ in range(150 if ctx.quick else 2000):
        add(gen.random_program(rng, bw, n_ops=rng.choice([10, 30, 60]), hostile=rng.choice([0, 0.05, 0.15])),
            gen.random_config(rng), "random")
    # work outside the VM must halt too: mask / multiply / divide idioms with arbitrary constants drive the loops of the
    # lifting passes (which_power_of_2, get_region), which the watchdog does not reach
    for code in gen.mask_shift_programs(rng, bw, 150 if ctx.quick else 3000):
        add(code, (30000000, 10, 50, 250, 394, 0), "lifting-arithmetic")
    # gas accounting across forks: a cheap straight prefix that uses most of a small gas budget, a JUMPI, and more work on
    # both sides (the account of the forked thread must be the gas of its whole path)
    for _ in range(60 if ctx.quick else 1000):
        a = gen.Asm()
        pre, post = rng.randrange(10, 80), rng.randrange(5, 40)
        for _ in range(pre):
            a.push(0).op("POP")
        a.op("CALLVALUE").push_label("F").op("JUMPI")
        for _ in range(rng.randrange(0, 10)):
            a.push(0).op("POP")
        a.op("STOP").label("F")
        for _ in range(post):
            a.push(0).op("POP")
        a.push(1).push(7).op("SSTORE").op("STOP")
        glim = rng.choice([5 * pre + 20, 5 * (pre + post) - 10, 5 * (pre + post) + 200, 30000000])
        add(a.assemble(), (glim, 10, 50, 250, 394, rng.randrange(2)), "gas-across-forks")
    for code in gen.cyclic_evidence_programs(rng, 80 if ctx.quick else 1500):
        add(code, (30000000, 10, 50, 250, 394, 0), "cyclic-evidence")
    return progs


def check(ctx):
    vlib.translate(ctx)
    vlib.prove(ctx, "props/C03.v", ["VmCases.vo", "UnifyCases.vo", "SimCases.vo"])
    vlib.prove(ctx, "props/C03_pipeline.v")   # the composed model: no out-of-fuel result under C03's fuel record
    hb = vlib.harness_bin(ctx)
    progs = inputs(ctx)
    keys = list(progs.keys())
    if ctx.replay_in:
        r = json.load(open(ctx.replay_in))["replay"]
        keys = [(bytes.fromhex(r["code"]), tuple(r["config"]))]
    if hb:
        lines = [gen.vm_line(c, cfg) for c, cfg in keys]
        ok, out, diag = vlib.run_harness_sharded(hb, ["vm"], lines)
        ctx.oblige("harness:vm", "correspondence", ok, diag)
        outcome = collections.Counter(l.split(" ")[0] for l in out)
        terms = ["mk_vcase %s %s (%s)" % (vlib.coq_bytes(c), gen.coq_config(cfg), l) for (c, cfg), l in zip(keys, out)
                 if l != "CHILD-DIED"]
        header = ("From Coq Require Import String.\nFrom SLX Require Import Base gen.ValueSig SymVal VM VmCases SimCases.\n"
                  "Open Scope string_scope. Open Scope N_scope.\n")
        bad = vlib.run_cases(ctx, "vm-bounds", header, terms, per_shard=min(120 if ctx.quick else 40, max(1, len(terms) // 32 + 1)), fn="check_c03g",
                             timeout=900 if ctx.quick else 3000)
        disagreements = []
        for idx, code in bad:
            c, cfg = keys[idx]
            rep = {"code": c.hex(), "config": list(cfg), "meaning": CODES.get(code, str(code)),
                   "how": "echo '<code> <gas> <iter> <fork> <size> <mem> <permissive> 100 -1' | build/harness-target/debug/slxh vm"}
            if code >= 20:
                ctx.violate("C03:%d:%s" % (code, c.hex()[:48]), "%s: program %s config %s" % (CODES.get(code), c.hex()[:120], cfg), rep)
            else:
                disagreements.append("%s %s: %s" % (c.hex()[:100], cfg, CODES.get(code, code)))
        ctx.oblige("correspondence:vm", "correspondence", not disagreements, "\n".join(disagreements[:10]))
        # whole-analysis halting under a poll budget (default configuration of the later stages)
        alines = [gen.vm_line(c, cfg, poll_every=1) + " all" for c, cfg in keys]
        ok2, aout, diag2 = vlib.run_harness_sharded(hb, ["analyze"], alines, timeout=1200)
        ctx.oblige("harness:analyze", "search", ok2, diag2)
        aclass = collections.Counter()
        # analyses that did not halt inside unification: the judgement set that reached unify is dumped by the real pipeline
        # and classified INSIDE Coq (UnifyCases.check_case_with: 50 = inside the known class K2 of C14, 40 = outside)
        hung = [(c, cfg) for (c, cfg), l in zip(keys, aout) if l.startswith("XA 3") and ('"tc"' in l or '"unify"' in l)]
        k2 = set()
        if hung:
            import p_c14
            for (c, cfg) in hung:
                # whether the loop is entered can depend on the iteration order (the analysis ran in the process's own hash
                # order): the judgement set is classified under every forced order in which unification does not halt
                for order in ("sorted", "sortedrev") + tuple("seed:%d" % i for i in range(1, 13)):
                    r = p_c14.classify_programs(ctx, hb, [c.hex()], order=order, limits=list(cfg))
                    if r and r[0]["outcome"] == "UBudget":
                        if r[0]["code"] == 50:
                            k2.add((c, cfg))
                        break
        ctx.coverage["unification_did_not_halt"] = {"total": len(hung), "inside_known_class_K2": len(k2)}
        for (c, cfg), l in zip(keys, aout):
            f = l.split(" ")
            cls = f[1] if len(f) > 1 and f[0] == "XA" else l[:20]
            aclass[cls] += 1
            if (c, cfg) in k2:
                ctx.violate("C03:K2", "unification does not halt on %s" % c.hex()[:120], {"code": c.hex(), "config": list(cfg), "stage": "unify"})
            elif cls == "3" or l == "CHILD-DIED":
                stage = l.split('"')[1] if '"' in l else "?"
                ctx.violate("C03:no-halt:%s:%s" % (stage, c.hex()[:48]),
                            "analysis did not halt within the poll budget (stage %s) on %s %s" % (stage, c.hex()[:120], cfg),
                            {"code": c.hex(), "config": list(cfg), "stage": stage})
        distinct_loops = len([1 for (c, cfg) in keys if b"\x56" in c or b"\x57" in c])
        ctx.coverage.update({
            "evaluations": len(keys), "distinct_nontrivial": distinct_loops,
            "traces_validated_against_impl": len(terms),
            "input_classes": dict(collections.Counter(progs.values())),
            "vm_outcomes": dict(outcome), "analysis_outcome_classes": dict(aclass),
        })
    samples = [gen.vm_line(c, cfg) for c, cfg in keys[:3]]
    return vlib.finish(ctx, rule="distinct (program, configuration) pairs; non-trivial = program contains a JUMP or JUMPI; "
                       "iteration limit 1..12, fork limit 1..60, gas from 300 to the block limit", samples=samples)
