"""T10 (pipeline glue): the hand-modelled glue BETWEEN the stages, as coq/Pipeline.v composes them.

Reads, from the source as it is now,
  * the order of the stages in `Extractor::analyze` and `TypeChecker::run`,
  * which collections of a retired state `VMState::all_values` hands to the type checker, in which order,
  * the five iteration points of the hook `verif::order` that lie outside `unify` with their sort keys,
into coq/gen/PipelineGlue.v (proofs/PipelineProofs.v `glue_as_modelled` stops compiling when one of them changes),
and pins the normalised text of the functions whose loops Pipeline.v writes out by hand (lift, assign_vars, infer,
the layout loop of unify, the value collection of memory / storage / stack, `clip_uuid`, the Display impl that is the
hook's sort key).  Strict: text that is not recognised is a failed translation obligation, never a silent default.
Only runs for the PIPELINE suite (and in setup.sh)."""
import hashlib
import os
import re

from translate import HEADER, match_brace, norm, read, write_if_changed


def body_of(src, sig_regex):
    """normalised body of the first item whose header matches; None when absent"""
    m = re.search(sig_regex, src)
    if not m:
        return None
    i = src.index("{", m.end() - 1)
    e = match_brace(src, i)
    return norm(src[i + 1:e - 1])


def sha(text):
    return hashlib.sha256(text.encode()).hexdigest()[:16]


# normalised-text pins: (file, header regex) -> sha256 prefix of the body Pipeline.v was written against
PINS = {
    ("src/tc/mod.rs", r"pub fn lift\(&mut self,"): "LIFT",
    ("src/tc/mod.rs", r"pub fn assign_vars\(&mut self,"): "ASSIGN",
    ("src/tc/mod.rs", r"pub fn infer\(&mut self\)"): "INFER",
    ("src/tc/mod.rs", r"pub fn unify\(&mut self\)"): "UNIFY",
    ("src/vm/mod.rs", r"pub fn all_values\(self\)"): "EXEC_ALL",
    ("src/vm/mod.rs", r"pub fn consume\(self\)"): "CONSUME",
    ("src/vm/state/stack.rs", r"pub fn all_values\(self\)"): "STACK_ALL",
    ("src/vm/state/memory.rs", r"pub fn all_values\(self\)"): "MEM_ALL",
    ("src/vm/state/storage.rs", r"pub fn stores_as_values\(self\)"): "STO_ALL",
    ("src/tc/state/mod.rs", r"pub fn values\(&self\)"): "TC_VALUES",
    ("src/tc/rule/mod.rs", r"pub fn infer\(&mut self,\s*value"): "RULES_INFER",
    ("src/utility.rs", r"pub fn clip_uuid\("): "CLIP",
    ("src/vm/value/mod.rs", r"impl<AuxData> Display for SymbolicValueData<AuxData>"): "DISPLAY",
    ("src/vm/value/known.rs", r"impl Display for KnownWord"): "DISPLAY_WORD",
}

def step_glue(repo, out, consts):
    problems = []
    info = {}
    # ---- stage orders
    ex = read(repo, "src/extractor/mod.rs")
    b = body_of(ex, r"pub fn analyze\(self\)")
    analyze = re.findall(r"\.(\w+)\(\)", b or "")
    analyze = [a for a in analyze if a not in ("layout", "clone")]
    if b is None or not analyze:
        problems.append("Extractor::analyze not recognised")
    tc = read(repo, "src/tc/mod.rs")
    b = body_of(tc, r"pub fn run\(&mut self,")
    run = re.findall(r"self\.(\w+)\(", b or "")
    if b is None or not run:
        problems.append("TypeChecker::run not recognised")
    elif norm(b) != norm("let transformed_values = self.lift(execution_result)?; self.assign_vars(transformed_values)?; "
                         "self.infer()?; self.unify()"):
        problems.append("TypeChecker::run: body not recognised: " + b)
    st = read(repo, "src/vm/state/mod.rs")
    b = body_of(st, r"pub fn all_values\(self\)")
    sources = []
    if b is None:
        problems.append("VMState::all_values not found")
    else:
        rest = b
        if not rest.startswith("let mut values=Vec::new();") or not rest.endswith("values"):
            problems.append("VMState::all_values: shape not recognised: " + b)
        for stmt in rest[len("let mut values=Vec::new();"):-len("values")].split(";"):
            if not stmt:
                continue
            m = re.fullmatch(r"values\.extend\(self\.(\w+)(?:\.(\w+)\(\))?\)", stmt)
            known = {("stack", "all_values"): "stack", ("memory", "all_values"): "memory",
                     ("storage", "stores_as_values"): "storage", ("recorded_values", None): "recorded",
                     ("logged_values", None): "logged"}
            if not m or (m.group(1), m.group(2)) not in known:
                problems.append("VMState::all_values: statement not recognised: " + stmt)
            else:
                sources.append(known[(m.group(1), m.group(2))])
    # ---- hook points outside unify: (point, key)
    points = []
    for rel in ("src/vm/state/memory.rs", "src/vm/state/storage.rs", "src/tc/state/mod.rs", "src/tc/rule/mod.rs"):
        src = read(repo, rel)
        for m in re.finditer(r"crate::verif::order\(", src):
            e = match_brace(src, m.end() - 1, "(", ")")
            args, depth, cur = [], 0, ""
            for ch in src[m.end():e - 1]:
                if ch in "([{":
                    depth += 1
                elif ch in ")]}":
                    depth -= 1
                if ch == "," and depth == 0:
                    args.append(cur)
                    cur = ""
                else:
                    cur += ch
            args.append(cur)
            if len(args) != 3:
                problems.append("%s: verif::order call with %d arguments" % (rel, len(args)))
            else:
                points.append((args[0].strip().strip('"'), norm(args[2])))
    keys = {"memory.constant_offsets": "|(k,_)|*k", "memory.symbolic_offsets": '|(k,_)|format!("{k}")',
            "storage.stores_as_values": '|(k,_)|format!("{k}")', "tc.values": "|(k,_)|**k", "tc.variables": "|v|*v",
            "tc.rules": '|r|format!("{:?}",r.rule)'}
    seen = []
    for p, k in points:
        if keys.get(p) != k:
            problems.append("hook point %s: key not recognised: %s" % (p, k))
        seen.append(p)
    for p in keys:
        if p not in seen:
            problems.append("hook point %s not found" % p)
    # ---- text pins
    pins = {}
    for (rel, sig), name in PINS.items():
        b = body_of(read(repo, rel), sig)
        if b is None:
            problems.append("%s: `%s` not found" % (rel, sig))
        else:
            pins[name] = sha(b)
    pinned = PINNED
    for name, h in sorted(pins.items()):
        if pinned.get(name) != h:
            problems.append("%s: text differs from the one coq/Pipeline.v models (sha %s, modelled %s)" % (name, h, pinned.get(name)))
    info = {"analyze": analyze, "run": run, "sources": sources, "hook_points": sorted(set(seen)), "pins": len(pins)}

    def lst(xs):
        return "[" + "; ".join('"%s"' % x for x in xs) + "]"

    s = HEADER + "From Coq Require Import List String.\nImport ListNotations.\nLocal Open Scope string_scope.\n"
    s += "(* Extractor::analyze: the stage methods in call order *)\n"
    s += "Definition analyze_stages : list string := %s.\n" % lst(analyze)
    s += "(* TypeChecker::run: the stage methods in call order *)\n"
    s += "Definition tc_run_stages : list string := %s.\n" % lst(run)
    s += "(* VMState::all_values: the collections handed to the type checker, in order *)\n"
    s += "Definition state_value_sources : list string := %s.\n" % lst(sources)
    s += "(* iteration points of verif::order outside unification *)\n"
    s += "Definition hook_points : list string := %s.\n" % lst(sorted(set(seen)))
    write_if_changed(os.path.join(out, "PipelineGlue.v"), s)
    return problems, info


# sha256 prefixes of the normalised bodies (regenerate with `python3 tools/tr_pipeline.py <repo>` after re-modelling)
PINNED = {
    "ASSIGN": "3b5f67bc0ad52a8e",
    "CLIP": "637d2601531f742c",
    "CONSUME": "4e49c49ef026c94f",
    "DISPLAY": "7a2d0f66126704c0",
    "DISPLAY_WORD": "f1cc7dc6204e6091",
    "EXEC_ALL": "a6ba4d20b4928470",
    "INFER": "cd7e7e45ef49dd9f",
    "LIFT": "1a1133f7aaf66cd2",
    "MEM_ALL": "866cd42885ff33be",
    "RULES_INFER": "52ea4daa3750a001",
    "STACK_ALL": "7806d4084947d1c9",
    "STO_ALL": "67f26a055c284976",
    "TC_VALUES": "ed73fd3e6152eccc",
    "UNIFY": "0aec50174fd57e9c",
}


steps = [("T10-pipeline-glue", step_glue, ("PIPELINE",))]

if __name__ == "__main__":
    import sys
    repo = sys.argv[1] if len(sys.argv) > 1 else "/repo"
    for (rel, sig), name in sorted(PINS.items(), key=lambda x: x[1]):
        b = body_of(read(repo, rel), sig)
        print('    "%s": "%s",' % (name, sha(b) if b is not None else "MISSING"))
