"""T-json: the serde surface of the layout types  ->  coq/gen/JsonNames.v

Re-read on every run from the Rust sources:
  * `AbiType` (src/tc/abi.rs): derive list, container attributes, every variant with its serde attributes,
    every field with its type and serde attributes;
  * `StructElement` (src/tc/abi.rs) and `StorageSlot` (src/layout.rs): the same for the two structs;
  * the hand-written `Serialize` / `Deserialize` impls of `U256Wrapper` (src/utility.rs): recognised bodies only.

Generated: for every variant the tag strings (serialise side / deserialise side), for every field the key
strings (both sides), and the declaration order of the fields of every struct-like as a permutation of the
model's order (serde writes objects in declaration order and reads the array form positionally).

Strict: the model in coq/Json.v is written for externally tagged enums, plain `rename`/`rename_all`
attributes and the exact variant/field/type inventory below. Anything else (other tagging styles, `alias`,
`default`, `skip*`, `flatten`, `with`, `deny_unknown_fields`, a new or missing variant or field, a changed
field type, a changed hex codec body) is reported as a problem -- never a silent default.
"""
import os
import re

from translate import HEADER, match_brace, norm, read, write_if_changed

# the inventory the hand-written model (coq/Json.v: `abi`, `slot`) is written for; field order = model order
EXPECT_VARIANTS = [
    ("Any", []),
    ("Number", [("size", "Option<usize>")]),
    ("UInt", [("size", "Option<usize>")]),
    ("Int", [("size", "Option<usize>")]),
    ("Address", []),
    ("Selector", []),
    ("Function", []),
    ("Bool", []),
    ("Array", [("size", "U256Wrapper"), ("tp", "Box<AbiType>")]),
    ("Bytes", [("length", "Option<usize>")]),
    ("Bits", [("length", "Option<usize>")]),
    ("DynArray", [("tp", "Box<AbiType>")]),
    ("DynBytes", []),
    ("Mapping", [("key_type", "Box<AbiType>"), ("value_type", "Box<AbiType>")]),
    ("Struct", [("elements", "Vec<StructElement>")]),
    ("InfiniteType", []),
    ("ConflictedType", [("conflicts", "Vec<String>"), ("reasons", "Vec<String>")]),
]
EXPECT_STRUCTS = {
    "StructElement": ("src/tc/abi.rs", [("offset", "usize"), ("typ", "Box<AbiType>")]),
    "StorageSlot": ("src/layout.rs", [("index", "U256Wrapper"), ("offset", "usize"), ("typ", "AbiType")]),
}
IGNORABLE_ATTRS = {"derivative", "doc", "allow", "must_use"}

HEX_SER_BODY = 'let mut value=String::from("0x");value.push_str(&hex::encode(self.0.to_be_bytes()));serializer.serialize_str(&value)'
HEX_DE_BODY = ("let s:String=Deserialize::deserialize(deserializer)?;"
               "let u256=U256::from_str_hex(&s).map_err(serde::de::Error::custom)?;Ok(U256Wrapper(u256))")


# ------------------------------------------------------------------------------- serde's RenameRule

def _variant_rule(rule, name):
    if rule is None or rule == "PascalCase":
        return name
    if rule == "lowercase":
        return name.lower()
    if rule == "UPPERCASE":
        return name.upper()
    if rule == "camelCase":
        return name[:1].lower() + name[1:]
    snake = ""
    for i, ch in enumerate(name):
        if i > 0 and ch.isupper():
            snake += "_"
        snake += ch.lower()
    if rule == "snake_case":
        return snake
    if rule == "SCREAMING_SNAKE_CASE":
        return snake.upper()
    if rule == "kebab-case":
        return snake.replace("_", "-")
    if rule == "SCREAMING-KEBAB-CASE":
        return snake.upper().replace("_", "-")
    raise ValueError("unknown rename_all rule %r" % rule)


def _field_rule(rule, name):
    if rule is None or rule in ("lowercase", "snake_case"):
        return name
    if rule == "UPPERCASE":
        return name.upper()
    pascal = ""
    cap = True
    for ch in name:
        if ch == "_":
            cap = True
        elif cap:
            pascal += ch.upper()
            cap = False
        else:
            pascal += ch
    if rule == "PascalCase":
        return pascal
    if rule == "camelCase":
        return pascal[:1].lower() + pascal[1:]
    if rule == "SCREAMING_SNAKE_CASE":
        return name.upper()
    if rule == "kebab-case":
        return name.replace("_", "-")
    if rule == "SCREAMING-KEBAB-CASE":
        return name.upper().replace("_", "-")
    raise ValueError("unknown rename_all rule %r" % rule)


# ------------------------------------------------------------------------------- attribute parsing

def take_attrs(src, i):
    """consumes `#[...]` attributes starting at src[i:] (after whitespace); returns (attrs, next index)"""
    attrs = []
    n = len(src)
    while True:
        while i < n and src[i].isspace():
            i += 1
        if src.startswith("#[", i):
            e = match_brace(src, i + 1, "[", "]")
            attrs.append(src[i + 2:e - 1].strip())
            i = e
        elif src.startswith("#![", i):
            raise ValueError("inner attribute")
        else:
            return attrs, i


def split_top(s, sep=","):
    out, depth, cur, i = [], 0, "", 0
    while i < len(s):
        c = s[i]
        if c == '"':
            j = i + 1
            while j < len(s) and s[j] != '"':
                j += 2 if s[j] == "\\" else 1
            cur += s[i:j + 1]
            i = j + 1
            continue
        if c in "([{<":
            depth += 1
        elif c in ")]}>":
            depth -= 1
        if c == sep and depth == 0:
            out.append(cur)
            cur = ""
        else:
            cur += c
        i += 1
    if cur.strip():
        out.append(cur)
    return [x.strip() for x in out]


def str_lit(s):
    m = re.fullmatch(r'"((?:[^"\\]|\\.)*)"', s.strip())
    if not m:
        raise ValueError("expected a string literal, got %r" % s)
    body = m.group(1)
    if "\\" in body:
        raise ValueError("escape sequences in serde names are not supported: %r" % s)
    return body


def two_sided(val, what):
    """`= "x"` -> (x, x);  `(serialize = "a", deserialize = "b")` -> (a or None, b or None)"""
    val = val.strip()
    if val.startswith("="):
        x = str_lit(val[1:])
        return x, x
    if val.startswith("(") and val.endswith(")"):
        ser = de = None
        for it in split_top(val[1:-1]):
            m = re.fullmatch(r"(serialize|deserialize)\s*=\s*(.+)", it)
            if not m:
                raise ValueError("unsupported %s argument %r" % (what, it))
            if m.group(1) == "serialize":
                ser = str_lit(m.group(2))
            else:
                de = str_lit(m.group(2))
        return ser, de
    raise ValueError("unsupported %s form %r" % (what, val))


def serde_items(attrs, where, problems, allowed):
    """returns dict key -> (ser, de) for the allowed keys among the #[serde(...)] attributes"""
    res = {}
    for a in attrs:
        head = re.match(r"\w+", a)
        head = head.group(0) if head else a
        if head == "serde":
            m = re.fullmatch(r"serde\s*\((.*)\)", a, flags=re.S)
            if not m:
                problems.append("%s: unparsable attribute #[%s]" % (where, a))
                continue
            for it in split_top(m.group(1)):
                m2 = re.match(r"(\w+)\s*(.*)", it, flags=re.S)
                key = m2.group(1) if m2 else it
                if key not in allowed:
                    problems.append("%s: serde attribute `%s` is outside the modelled surface" % (where, it))
                    continue
                try:
                    ser, de = two_sided(m2.group(2), key)
                except ValueError as ex:
                    problems.append("%s: %s" % (where, ex))
                    continue
                old = res.get(key, (None, None))
                res[key] = (ser if ser is not None else old[0], de if de is not None else old[1])
        elif head == "derive" and "derive" in allowed:
            m = re.fullmatch(r"derive\s*\((.*)\)", a, flags=re.S)
            res.setdefault("derive", set()).update(x.strip() for x in m.group(1).split(","))
        elif head in IGNORABLE_ATTRS:
            continue
        else:
            problems.append("%s: attribute #[%s] is outside the modelled surface" % (where, a))
    return res


def find_top(s, i, sep=","):
    depth = 0
    n = len(s)
    while i < n:
        c = s[i]
        if c == '"':
            i += 1
            while i < n and s[i] != '"':
                i += 2 if s[i] == "\\" else 1
        elif c in "([{<":
            depth += 1
        elif c in ")]}>":
            depth -= 1
        elif c == sep and depth == 0:
            return i
        i += 1
    return n


def parse_fields(body, where, problems):
    """`attrs* [pub] name: Type,` ...  -> list of (name, type, attrs)"""
    fields = []
    i = 0
    while True:
        attrs, i = take_attrs(body, i)
        if not body[i:].strip():
            if attrs:
                problems.append("%s: dangling attributes" % where)
            break
        j = find_top(body, i)
        first = body[i:j].strip()
        i = j + 1
        m = re.fullmatch(r"(?:pub(?:\([^)]*\))?\s+)?(?:r#)?(\w+)\s*:\s*(.+)", first, flags=re.S)
        if not m:
            problems.append("%s: unparsable field %r" % (where, first))
            continue
        fields.append((m.group(1), re.sub(r"\s+", "", m.group(2)), attrs))
    return fields


def parse_item(src, kind, name):
    m = re.search(r"pub\s+%s\s+%s\s*\{" % (kind, name), src)
    if not m:
        raise ValueError("`pub %s %s {` not found" % (kind, name))
    # attributes directly in front of the item
    head = src[:m.start()]
    attrs = []
    while True:
        h = head.rstrip()
        if not h.endswith("]"):
            break
        # find the matching `#[`
        depth = 0
        k = len(h) - 1
        while k >= 0:
            if h[k] == "]":
                depth += 1
            elif h[k] == "[":
                depth -= 1
                if depth == 0:
                    break
            k -= 1
        if k < 1 or h[k - 1] != "#":
            break
        attrs.insert(0, h[k + 1:-1].strip())
        head = h[:k - 1]
    end = match_brace(src, m.end() - 1)
    return attrs, src[m.end():end - 1]


def names_for(raw, rename, rule_pair, rule_fn):
    ser = rename[0] if rename and rename[0] is not None else rule_fn(rule_pair[0], raw)
    de = rename[1] if rename and rename[1] is not None else rule_fn(rule_pair[1], raw)
    return ser, de


def container(attrs, where, problems):
    items = serde_items(attrs, where, problems, {"rename_all", "derive"})
    der = items.get("derive", set())
    for need in ("Serialize", "Deserialize"):
        if need not in der:
            problems.append("%s: #[derive(%s)] not found (a hand-written impl is outside the model)" % (where, need))
    return items.get("rename_all", (None, None))


def coq_str(s):
    if any(ord(c) < 0x20 or ord(c) > 0x7e for c in s):
        raise ValueError("non-ASCII name %r" % s)
    return '"%s"' % s.replace('"', '""')


def impl_body(src, header_re):
    m = re.search(header_re, src)
    if not m:
        return None
    i = src.find("{", m.end())
    e = match_brace(src, i)
    inner = src[i + 1:e - 1]
    m2 = re.search(r"fn\s+\w+\s*(<[^{]*>)?\s*\(", inner)
    if not m2:
        return None
    j = inner.find("{", m2.end())
    # skip a where clause: the body is the last top-level brace block
    e2 = match_brace(inner, j)
    return norm(inner[j + 1:e2 - 1])


def gen_json_names(repo, out, consts):
    problems = []
    abi_src = read(repo, "src/tc/abi.rs")
    lines = [HEADER, "From Coq Require Import String List.\nImport ListNotations.\nOpen Scope string_scope.\n"]
    pairs = []
    info = {}

    # ---- AbiType
    attrs, body = parse_item(abi_src, "enum", "AbiType")
    rule = container(attrs, "AbiType", problems)
    try:
        _variant_rule(rule[0], "X"), _variant_rule(rule[1], "X")
    except ValueError as ex:
        problems.append("AbiType: %s" % ex)
        rule = (None, None)
    variants = []
    i = 0
    while True:
        vattrs, i = take_attrs(body, i)
        m = re.compile(r"\s*(\w+)\s*").match(body, i)
        if not m:
            if body[i:].strip():
                problems.append("AbiType: unparsable text %r" % body[i:i + 40])
            break
        vname = m.group(1)
        j = m.end()
        fields = []
        if j < len(body) and body[j] == "{":
            e = match_brace(body, j)
            fields = parse_fields(body[j + 1:e - 1], "AbiType::" + vname, problems)
            j = e
        elif j < len(body) and body[j] in "(=":
            problems.append("AbiType::%s: tuple variants / discriminants are outside the model" % vname)
            break
        variants.append((vname, fields, vattrs))
        m3 = re.compile(r"\s*,").match(body, j)
        i = m3.end() if m3 else j
        if not body[i:].strip():
            break
    got = {v[0]: v for v in variants}
    exp = dict(EXPECT_VARIANTS)
    for v in variants:
        if v[0] not in exp:
            problems.append("AbiType::%s: variant unknown to the model" % v[0])
    if len(got) != len(variants):
        problems.append("AbiType: duplicate variant")
    de_tags = []
    for vname, efields in EXPECT_VARIANTS:
        if vname not in got:
            problems.append("AbiType::%s: variant expected by the model is missing" % vname)
            continue
        _, fields, vattrs = got[vname]
        items = serde_items(vattrs, "AbiType::" + vname, problems, {"rename"})
        ser, de = names_for(vname, items.get("rename"), rule, _variant_rule)
        lines.append("Definition ts_%s : string := %s.\nDefinition td_%s : string := %s.\n"
                     % (vname, coq_str(ser), vname, coq_str(de)))
        pairs.append(("ts_" + vname, "td_" + vname))
        de_tags.append(de)
        emit_fields(vname, "AbiType::" + vname, fields, efields, (None, None), lines, pairs, problems)
    if len(set(de_tags)) != len(de_tags):
        problems.append("AbiType: two variants share a deserialise-side tag")
    info["variants"] = len(variants)

    # ---- the two structs
    for sname, (rel, efields) in EXPECT_STRUCTS.items():
        src = abi_src if rel == "src/tc/abi.rs" else read(repo, rel)
        try:
            attrs, body = parse_item(src, "struct", sname)
        except ValueError as ex:
            problems.append(str(ex))
            continue
        rule = container(attrs, sname, problems)
        try:
            _field_rule(rule[0], "x"), _field_rule(rule[1], "x")
        except ValueError as ex:
            problems.append("%s: %s" % (sname, ex))
            rule = (None, None)
        fields = parse_fields(body, sname, problems)
        emit_fields(sname, sname, fields, efields, rule, lines, pairs, problems)

    # ---- the 256-bit hex codec: recognised bodies only
    usrc = read(repo, "src/utility.rs")
    sb = impl_body(usrc, r"impl\s+Serialize\s+for\s+U256Wrapper")
    db = impl_body(usrc, r"impl\s*<\s*'de\s*>\s*Deserialize\s*<\s*'de\s*>\s*for\s+U256Wrapper")
    if sb != HEX_SER_BODY:
        problems.append("U256Wrapper::serialize: body not recognised: %r" % (sb,))
    if db != HEX_DE_BODY:
        problems.append("U256Wrapper::deserialize: body not recognised: %r" % (db,))
    cargo = open(os.path.join(repo, "Cargo.toml")).read()
    m = re.search(r"^serde_json\s*=\s*(.+)$", cargo, flags=re.M)
    if not m:
        problems.append("Cargo.toml: serde_json dependency not found")
    elif "features" in m.group(1):
        problems.append("Cargo.toml: serde_json features change number/map/recursion behaviour: %s" % m.group(1))

    lines.append("Definition name_pairs : list (string * string) := [%s].\n"
                 % "; ".join("(%s, %s)" % p for p in pairs))
    # the names file is written whenever every name the model uses could be determined -- also when
    # something else is outside the modelled surface (that is reported as a problem, and the
    # correspondence run then shows what the difference does); never from a previous run's state
    expected = len(EXPECT_VARIANTS) + sum(len(f) for _, f in EXPECT_VARIANTS) \
        + sum(len(f) for _, f in EXPECT_STRUCTS.values())
    if len(pairs) == expected:
        write_if_changed(os.path.join(out, "JsonNames.v"), "".join(lines))
    else:
        problems.append("names incomplete (%d of %d): coq/gen/JsonNames.v not regenerated" % (len(pairs), expected))
        try:
            os.remove(os.path.join(out, "JsonNames.v"))
        except FileNotFoundError:
            pass
    info["names"] = len(pairs)
    return problems, info


def emit_fields(owner, where, fields, efields, rule, lines, pairs, problems):
    exp = dict(efields)
    got = {}
    for fname, ftype, fattrs in fields:
        if fname in got:
            problems.append("%s: duplicate field %s" % (where, fname))
        got[fname] = (ftype, fattrs)
        if fname not in exp:
            problems.append("%s: field `%s` unknown to the model" % (where, fname))
    de_names = []
    for fname, ftype in efields:
        if fname not in got:
            problems.append("%s: field `%s` expected by the model is missing" % (where, fname))
            continue
        if got[fname][0] != ftype:
            problems.append("%s.%s: type %s, the model is written for %s" % (where, fname, got[fname][0], ftype))
        items = serde_items(got[fname][1], "%s.%s" % (where, fname), problems, {"rename"})
        try:
            ser, de = names_for(fname, items.get("rename"), rule, _field_rule)
        except ValueError as ex:
            problems.append("%s.%s: %s" % (where, fname, ex))
            continue
        lines.append("Definition fs_%s_%s : string := %s.\nDefinition fd_%s_%s : string := %s.\n"
                     % (owner, fname, coq_str(ser), owner, fname, coq_str(de)))
        pairs.append(("fs_%s_%s" % (owner, fname), "fd_%s_%s" % (owner, fname)))
        de_names.append(de)
    if len(set(de_names)) != len(de_names):
        problems.append("%s: two fields share a deserialise-side key" % where)
    if efields:
        order = [f[0] for f in fields if f[0] in exp]
        model = [f[0] for f in efields]
        perm = [model.index(f) for f in order]
        lines.append("Definition perm_%s : list nat := [%s]. (* declaration order: %s *)\n"
                     % (owner, "; ".join(str(p) for p in perm), ", ".join(order)))


steps = [("T-json-names", gen_json_names)]
