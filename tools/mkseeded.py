#!/usr/bin/env python3
"""mkseeded.py <ID> [--as <seeded-id>] [--breaks Cxx]: assemble /verif/seeded/<id>/ from a mutation agent's
output directory /tmp/mut_<ID>_out (patch.diff, demo/, meta.json) plus my own confirmation logs
(verify_summary.txt written by the scratch-worktree verification: suite green with the patch, demonstration
fails with it and passes without it)."""
import json, os, shutil, sys

def main():
    a = sys.argv[1:]
    src_id = a[0]
    sid = a[a.index("--as") + 1] if "--as" in a else src_id
    breaks = a[a.index("--breaks") + 1] if "--breaks" in a else src_id
    src = a[a.index("--src") + 1] if "--src" in a else f"/tmp/mut_{src_id}_out"
    dst = os.path.join(os.path.dirname(os.path.abspath(__file__)), "..", "seeded", sid)
    os.makedirs(dst, exist_ok=True)
    shutil.copy(f"{src}/patch.diff", f"{dst}/patch.diff")
    if os.path.isdir(f"{dst}/demo"):
        shutil.rmtree(f"{dst}/demo")
    shutil.copytree(f"{src}/demo", f"{dst}/demo")
    for f in os.listdir(f"{dst}/demo"):          # keep logs short
        p = f"{dst}/demo/{f}"
        if f.endswith(".log") and os.path.getsize(p) > 20000:
            with open(p, errors="replace") as h:
                t = h.read()
            with open(p, "w") as h:
                h.write(t[:6000] + "\n...[cut]...\n" + t[-12000:])
    try:
        meta = json.load(open(f"{src}/meta.json"))
    except Exception as e:
        meta = {"agent_meta_unreadable": str(e)}
    out = {
        "breaks_property": breaks,
        "source": "fresh sub-agent given only the property text and a scratch git worktree of /repo",
        "what_it_needs_to_manifest": meta.get("needs_to_manifest") or meta.get("what_it_needs_to_manifest") or meta.get("needs"),
        "agent_report": meta,
        "confirmed_by_me": {},
    }
    vs = f"{src}/verify_summary.txt"
    if os.path.exists(vs):
        out["confirmed_by_me"]["scratch_worktree"] = open(vs).read().strip()
        out["confirmed_by_me"]["how"] = ("in the scratch worktree: git apply patch.diff; cargo test --workspace --offline "
                                         "--no-fail-fast (must be green); copy the demonstration into tests/ and run it (must fail); "
                                         "git checkout -- . and run it again (must pass)")
    out["what_i_ran_against_my_checks"] = ("tools/seeded_run.sh %s <properties>: git -C /repo apply seeded/%s/patch.diff; "
                                            "./check <property> --tier quick; git -C /repo checkout -- .  — results in check_results.txt" % (sid, sid))
    json.dump(out, open(f"{dst}/meta.json", "w"), indent=1)
    print("wrote", dst)

main()
