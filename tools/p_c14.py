"""C14 -- unification ends with one equality-free type per variable and honours equalities
(+ the unification half of C03 and the unification-level half of C15)."""
import collections
import os
import re

import vlib

MANIFEST = {
    "text": "Coq theorems over a faithful model of unification::unify (coq/Unify.v: forest construction, the fixpoint loop with "
            "made_progress, per-class left fold of merge with the fresh-variable counter threaded, insertion of new type "
            "variables, unions, re-added judgements, every hash-iteration order an explicit oracle) built on the verified "
            "union-find model of C19: whenever unify returns, every class holds at most one expression and none is an equality "
            "(unify_post); variables declared equal directly or transitively end in one class (eq_same_class, through C19's "
            "closure theorem); a class with mapping / fixed-array / dynamic-array evidence resolves to a conflict or to a type of "
            "that kind (same length) whose components are in the classes of the evidence's components, so two such pieces of "
            "evidence in one class are unified component-wise (ctor_components_unified, ctor_pair_unified; the dynamic-bytes "
            "exception is exhibited); merge never returns an equality and its two `Equal` panics are unreachable from unify; "
            "without packed encodings unify stops within n + 2 rounds for every iteration order, and a class whose evidence is "
            "words/Any resolves to the lattice join of ALL of it, a conflict exactly when the join is top (C15_unify.v). "
            "Termination in general is REFUTED (known finding K2): a forest is exhibited that a round reproduces exactly with "
            "made_progress = true (an invariant), hence unify runs out of every fuel. The model is tied to the code by a "
            "correspondence run of the REAL unify (under a poll-budget + wall-clock watchdog) in the order modes "
            "Sorted/SortedReversed of hook H1, compared member by member inside Coq; the property predicates are evaluated on "
            "the implementation's own results in those and in seeded orders.",
    "note": "Trusted: Coq kernel + vm_compute; the harness (builds a TypeCheckerState through allocate_ty_var/infer or "
            "inferences_mut, runs unification::unify, prints every member's root and class data) and the generators; Unify.v's "
            "te_debug reproduces the derived Debug text that hook H1 sorts by (compared with the implementation's text on every "
            "run). The watchdog poll inside the loop is not modelled here (C13). Known classes: K2 (a fixed-width word of a "
            "pushed-down usage in a class with a packed encoding whose first span has that width and whose first-span chain is "
            "cyclic: unify never stops), K1 (a class resolving to dynamic bytes hides dynamic arrays whose elements are unified "
            "under one fold order only; same root cause as C16's K2).",
    "technique": "Coq proof (forward simulation to C19's partition model, round = pure plan + operation history, invariants "
                 "over rounds: every piece of evidence stays covered by an element of its class's data, every data element is "
                 "bounded by the class's evidence; literal fixpoint state for the non-termination witness) + differential correspondence and "
                 "property evaluation inside Coq on seeded random judgement sets (<= 40 variables, all evidence kinds, "
                 "overlapping/unsorted spans, cycles, C15-style ground-truth sets)",
}

HEADER = ("From Coq Require Import String.\n"
          "From SLX Require Import Base gen.Constants gen.WordUseTable TypeExpr Merge MergeCases Unify UnifyCases.\n"
          "Open Scope string_scope. Open Scope N_scope.\n"
          "Set Printing Depth 1000000. Set Printing Width 1000000.\n")

USES = ["Bytes", "Numeric", "UnsignedNumeric", "SignedNumeric", "Bool", "Address", "Selector", "Function"]
FIXED_W = {"Bool": 8, "Address": 160, "Selector": 32, "Function": 192}
PUSHED = ["SignedNumeric", "Bool", "Address", "Selector", "Function"]
BELOW = {"Bytes": ["Bytes"], "Numeric": ["Bytes", "Numeric"], "UnsignedNumeric": ["Bytes", "Numeric", "UnsignedNumeric"],
         "SignedNumeric": ["Bytes", "Numeric", "SignedNumeric"], "Bool": ["Bytes", "Bool"],
         "Address": ["Bytes", "Numeric", "UnsignedNumeric", "Address"], "Selector": ["Bytes", "Selector"],
         "Function": ["Bytes", "Function"]}
WIDTHS = ["-", "-", 1, 7, 8, 8, 16, 32, 64, 128, 160, 160, 192, 248, 256, 256]
BUDGET = 200000
CODES = {1: "model fails where the implementation returned", 2: "model still running after 64 rounds",
         3: "members differ", 4: "a root or an inference set differs", 5: "fresh-variable counter differs",
         6: "implementation panicked, model did not", 7: "implementation over budget, model terminated",
         8: "Debug text differs",
         10: "a class is left with more than one expression", 11: "an equality is left in a class",
         12: "variables declared equal end in different classes", 13: "components of constructed types not unified",
         14: "merge panicked on an equality", 20: "a class of word/Any evidence did not resolve to the join",
         21: "compatible evidence resolved to a conflict", 22: "contradictory evidence did not conflict",
         40: "poll budget exceeded outside the known class K2",
         50: "poll budget exceeded inside the known class K2", 51: "dynamic bytes hide un-unified dynamic arrays (K1)"}


# ------------------------------------------------------------------------------------------------
# generators

def word(rng, u=None, w=None):
    u = u or rng.choice(USES)
    if w is None:
        w = FIXED_W[u] if (u in FIXED_W and rng.random() < 0.75) else rng.choice(WIDTHS)
    return "W:%s:%s" % (w, u)


def spans(rng, n, aligned=True):
    k = rng.randrange(1, 5)
    out = []
    for _ in range(k):
        if aligned:
            off, size = 8 * rng.randrange(0, 20), 8 * rng.randrange(1, 21)
        else:
            off, size = rng.randrange(0, 250), rng.randrange(0, 60)
        out.append((rng.randrange(n), off, size))
    return out


def packed(rng, n, sp=None):
    if sp is None:
        r = rng.random()
        if r < 0.08:
            sp = []
        elif r < 0.25:
            pool = [(0, 1), (1, 7), (8, 248)]
            sp = [(rng.randrange(n), o, z) for o, z in rng.sample(pool, rng.randrange(1, 4))]
        elif r < 0.45:
            # a tiling of the word, in a random order
            cuts = sorted(rng.sample(range(8, 256, 8), rng.randrange(1, 4)))
            bounds = [0] + cuts + [256]
            sp = [(rng.randrange(n), a, b - a) for a, b in zip(bounds, bounds[1:])]
            rng.shuffle(sp)
        else:
            sp = spans(rng, n, aligned=rng.random() < 0.8)
    return "P:%d:%s" % (1 if rng.random() < 0.25 else 0, "/".join("%d,%d,%d" % s for s in sp))


def rand_te(rng, n, depth=0):
    r = rng.random()
    if r < 0.05:
        return "Any"
    if r < 0.10:
        return "Bytes"
    if r < 0.40:
        return word(rng)
    if r < 0.52:
        return "M:%d:%d" % (rng.randrange(n), rng.randrange(n))
    if r < 0.62:
        return "D:%d" % rng.randrange(n)
    if r < 0.72:
        return "F:%d:%d" % (rng.randrange(n), rng.choice([0, 1, 2, 3, 3, 4, 32, 2 ** 64, 2 ** 256 - 1]))
    if r < 0.76 and depth == 0:
        cs = " ".join(rand_te(rng, n, 1) for _ in range(rng.randrange(0, 3)))
        rs = " ".join("i%d" % rng.randrange(4) for _ in range(rng.randrange(0, 3)))
        return "C[ %s ] R[ %s ]" % (cs, rs)
    return packed(rng, n)


def fmt(order, api, n, judg):
    """judg: list of (v, te) in the order they are to be added"""
    by = collections.OrderedDict()
    for v, e in judg:
        by.setdefault(v, []).append(e)
    parts = ["%d %s" % (v, " ".join(es)) for v, es in by.items()]
    return "J %s %d %s %d" % (order, BUDGET, api, n) + "".join(" | " + p for p in parts)


def gen_random(rng):
    n = rng.choice([1, 2, 3, 4, 5, 6, 8, 10, 14, 20, 30, 40])
    judg = []
    density = rng.choice([0.5, 1.0, 1.5, 2.5])
    for _ in range(max(1, int(n * density))):
        v = rng.randrange(n)
        if rng.random() < 0.3:
            judg.append((v, "Eq:%d" % rng.randrange(n)))
        else:
            judg.append((v, rand_te(rng, n)))
    # clusters: evidence of one kind spread over equated variables
    for _ in range(rng.randrange(0, 4)):
        vs = [rng.randrange(n) for _ in range(rng.randrange(2, 5))]
        kind = rng.choice("WMDFP")
        for a, b in zip(vs, vs[1:]):
            judg.append((a, "Eq:%d" % b))
        for v in vs:
            if kind == "W":
                judg.append((v, word(rng)))
            elif kind == "M":
                judg.append((v, "M:%d:%d" % (rng.randrange(n), rng.randrange(n))))
            elif kind == "D":
                judg.append((v, rng.choice(["D:%d" % rng.randrange(n), "D:%d" % rng.randrange(n), "Bytes", word(rng)])))
            elif kind == "F":
                judg.append((v, "F:%d:%d" % (rng.randrange(n), rng.choice([0, 3, 3, 3, 4]))))
            else:
                judg.append((v, rng.choice([packed(rng, n), packed(rng, n), word(rng), "Bytes"])))
    rng.shuffle(judg)
    return n, judg, "random"


def gen_cyclic(rng):
    """self-referential constructed types: a mapping whose value is itself, arrays of themselves, rings"""
    n = rng.choice([1, 2, 3, 5, 8, 12])
    judg = []
    for _ in range(rng.randrange(1, 6)):
        v = rng.randrange(n)
        k = rng.random()
        if k < 0.35:
            judg.append((v, "M:%d:%d" % (rng.randrange(n), v)))
        elif k < 0.5:
            judg.append((v, "M:%d:%d" % (v, v)))
        elif k < 0.7:
            judg.append((v, "D:%d" % v))
        elif k < 0.85:
            judg.append((v, "F:%d:3" % v))
        else:
            judg.append((v, packed(rng, n, [(v, 0, 128), (rng.randrange(n), 128, 128)])))
    for _ in range(rng.randrange(0, n + 2)):
        judg.append((rng.randrange(n), "Eq:%d" % rng.randrange(n)))
    for _ in range(rng.randrange(0, 4)):
        judg.append((rng.randrange(n), rand_te(rng, n)))
    rng.shuffle(judg)
    return n, judg, "cyclic"


def gen_packed(rng):
    """several packed encodings (overlapping, unsorted, nested through their span variables) and words in few classes"""
    n = rng.choice([2, 3, 4, 6, 9, 14])
    judg = []
    roots = [rng.randrange(n) for _ in range(rng.randrange(1, 3))]
    for _ in range(rng.randrange(2, 8)):
        v = rng.choice(roots) if rng.random() < 0.7 else rng.randrange(n)
        r = rng.random()
        if r < 0.6:
            judg.append((v, packed(rng, n)))
        elif r < 0.85:
            judg.append((v, word(rng)))
        elif r < 0.93:
            judg.append((v, rng.choice(["Bytes", "D:%d" % rng.randrange(n)])))
        else:
            judg.append((v, "Eq:%d" % rng.randrange(n)))
    rng.shuffle(judg)
    return n, judg, "packed"


def gen_k2like(rng):
    """a word next to a packed encoding whose first span has the word's width; chains of such encodings, closed
    into a cycle or not; usages pushed down or not"""
    n = rng.choice([1, 2, 3, 4, 6, 10])
    ln = rng.randrange(1, min(n, 4) + 1)
    chain = rng.sample(range(n), ln)
    u = rng.choice(PUSHED) if rng.random() < 0.7 else rng.choice(USES)
    w = FIXED_W.get(u, rng.choice([8, 64, 128, 160, 256]))
    judg = [(chain[0], "W:%d:%s" % (w, u))]
    closed = rng.random() < 0.6
    for i, c in enumerate(chain):
        if i + 1 < ln:
            nxt = chain[i + 1]
        elif closed:
            nxt = rng.choice(chain)
        else:
            nxt = rng.randrange(n)
        w2 = w if rng.random() < 0.85 else rng.choice([8, 160, 256])
        sp = [(nxt, 0 if rng.random() < 0.9 else 8, w2)]
        if rng.random() < 0.4 and w2 < 256:
            sp.append((rng.randrange(n), w2, 256 - w2))
        if rng.random() < 0.2:
            rng.shuffle(sp)
        judg.append((c, packed(rng, n, sp)))
    for _ in range(rng.randrange(0, 3)):
        judg.append((rng.randrange(n), rng.choice(["Eq:%d" % rng.randrange(n), rand_te(rng, n)])))
    rng.shuffle(judg)
    return n, judg, "k2like"


def gen_congruence(rng, share=0.0):
    """(share > 0: some constructed types use ONE variable in several component positions, e.g. mapping(a => a), so that a
    component equality relates a variable to two different partners.)
    In-fragment sets on which the congruence closure has work to do: a type skeleton (words, mappings, dynamic and
    fixed arrays, nested up to depth 3) is instantiated several times over FRESH variables; only the roots of the
    instances are declared equal, so everything below has to be equated by unification itself, level by level.
    Every class holds evidence of one kind only (words may contradict each other)."""
    def skel(d):
        r = rng.random()
        if d == 0 or r < 0.3:
            return ("W",)
        if r < 0.6:
            return ("M", skel(d - 1), skel(d - 1))
        if r < 0.8:
            return ("D", skel(d - 1))
        return ("F", skel(d - 1), rng.choice([0, 0, 1, 2, 3, 5, 2 ** 128]))
    sk = skel(rng.randrange(1, 4))
    judg = []
    counter = [0]

    def fresh():
        counter[0] += 1
        return counter[0] - 1

    def inst(t):
        v = fresh()
        if t[0] == "W":
            if rng.random() < 0.6:
                judg.append((v, word(rng) if rng.random() < 0.3 else "W:%s:%s" % (rng.choice([160, "-"]), rng.choice(BELOW["Address"]))))
            if rng.random() < 0.1:
                judg.append((v, "Any"))
        elif t[0] == "M":
            a = inst(t[1])
            b = a if (rng.random() < share and t[1][0] == "W" and t[2][0] == "W") else inst(t[2])
            judg.append((v, "M:%d:%d" % (a, b)))
        elif t[0] == "D":
            a = inst(t[1])
            judg.append((v, "D:%d" % a))
        else:
            a = inst(t[1])
            judg.append((v, "F:%d:%d" % (a, t[2])))
        return v
    roots = [inst(sk) for _ in range(rng.randrange(2, 5))]
    n = counter[0]
    if n > 40:
        return gen_congruence(rng, share)
    for a, b in zip(roots, roots[1:]):
        judg.append((a, "Eq:%d" % b) if rng.random() < 0.5 else (b, "Eq:%d" % a))
    rng.shuffle(judg)
    return n, judg, "congruence" if share == 0.0 else "congruence-shared-components"


def gen_congruence_shared(rng):
    return gen_congruence(rng, share=0.5)


def gen_truth(rng):
    """C15-style: a hidden ground-truth typing; evidence = weakenings of the true type + equalities between
    same-typed variables.  Returns expectations (v, 0) = must not be a conflict; with `inject`, one plainly
    contradictory judgement goes into one class and that class must be a conflict: (v, 1)."""
    ngroups = rng.randrange(1, 7)
    groups = []
    n = 0
    for _ in range(ngroups):
        size = rng.randrange(1, 6)
        groups.append(list(range(n, n + size)))
        n += size
    n = min(n, 40)
    groups = [[v for v in g if v < n] for g in groups]
    groups = [g for g in groups if g]
    # true types: words, or constructed over other groups
    kinds = []
    for gi, g in enumerate(groups):
        r = rng.random()
        if r < 0.6 or len(groups) == 1:
            u = rng.choice(USES)
            kinds.append(("W", u, FIXED_W.get(u, rng.choice([8, 16, 32, 64, 128, 256]))))
        elif r < 0.75:
            kinds.append(("M", rng.randrange(len(groups)), rng.randrange(len(groups))))
        elif r < 0.88:
            kinds.append(("D", rng.randrange(len(groups))))
        else:
            kinds.append(("F", rng.randrange(len(groups)), rng.choice([0, 0, 1, 2, 3, 5, 2 ** 128])))
    judg = []
    for g, k in zip(groups, kinds):
        # connect the group by equalities (a random spanning tree, plus extras)
        for i in range(1, len(g)):
            a, b = g[i], g[rng.randrange(i)]
            judg.append((a, "Eq:%d" % b) if rng.random() < 0.5 else (b, "Eq:%d" % a))
        for v in g:
            for _ in range(rng.randrange(0, 3)):
                if k[0] == "W":
                    e = rng.choice(["W:%s:%s" % (rng.choice([k[2], "-"]), rng.choice(BELOW[k[1]])), "Any"]
                                   if rng.random() < 0.15 else ["W:%s:%s" % (rng.choice([k[2], "-"]), rng.choice(BELOW[k[1]]))])
                elif k[0] == "M":
                    e = "M:%d:%d" % (rng.choice(groups[k[1]]), rng.choice(groups[k[2]]))
                elif k[0] == "D":
                    e = "D:%d" % rng.choice(groups[k[1]])
                else:
                    e = "F:%d:%d" % (rng.choice(groups[k[1]]), k[2])
                if rng.random() < 0.1:
                    e = "Any"
                judg.append((v, e))
    expect = [(g[0], 0) for g in groups]
    cls = "truth"
    if rng.random() < 0.45:
        gi = rng.randrange(len(groups))
        k = kinds[gi]
        # only groups that have evidence can be contradicted
        have = [e for v, e in judg if v in groups[gi] and not e.startswith("Eq") and e != "Any"]
        bad = None
        if have and k[0] == "W":
            u, w = k[1], k[2]
            sized = any(e.startswith("W:%d:" % w) for e in have)
            opts = []
            if sized:
                opts.append("W:%d:Bytes" % (w + 8))
            strongest = [e.split(":")[2] for e in have if e.startswith("W:")]
            if "Address" in strongest or "UnsignedNumeric" in strongest:
                opts.append("W:-:SignedNumeric")
            if "SignedNumeric" in strongest:
                opts.append("W:-:UnsignedNumeric")
            if "Bool" in strongest:
                opts.append("W:160:Address")
            opts.append("M:0:0")
            opts.append("F:0:2")
            bad = rng.choice(opts)
        elif have and k[0] == "M":
            bad = rng.choice(["W:8:Bool", "D:0", "F:0:3", "Bytes"])
        elif have and k[0] == "F":
            bad = rng.choice(["M:0:0", "D:0", "Bytes", "W:160:Address", "F:0:%d" % (k[2] + 1)])
        elif have and k[0] == "D":
            bad = rng.choice(["M:0:0", "F:0:3"])
        if bad:
            judg.append((rng.choice(groups[gi]), bad))
            # every group whose type mentions the contradicted group stays as it is; only that class must conflict
            expect = [(g[0], 1 if i == gi else 0) for i, g in enumerate(groups)]
            # a conflict spreads to groups equated through component equalities of a conflicting mapping? No:
            # a conflict emits no equalities.  But a contradicted component can make OTHER evidence collide:
            # keep only the expectation for the injected class and for word groups nobody points into.
            expect = [(v, c) for (v, c), kk in zip(expect, kinds) if c == 1 or kk[0] == "W"]
            cls = "truth+contradiction"
    rng.shuffle(judg)
    return n, judg, cls, expect


ORDERS = ["sorted", "sortedrev", "natural", "reversed"]


def pick_order(rng):
    """Sorted / SortedReversed are compared with the model; seeded orders (hook H1: a permutation that is a
    function of the seed, the iteration point and the number of items) give replayable variety for the
    property predicates.  The collections' own hash order (`natural`, `reversed`) changes from process to
    process and is therefore used in the corpus only."""
    r = rng.random()
    if r < 0.45:
        return "sorted"
    if r < 0.70:
        return "sortedrev"
    return "seed:%d" % rng.randrange(1, 10 ** 6)


def build_inputs(ctx, count):
    rng = ctx.rng
    lines, classes, expects = [], [], []
    gens = [(gen_random, 0.28), (gen_cyclic, 0.09), (gen_packed, 0.14), (gen_k2like, 0.11), (gen_truth, 0.22),
            (gen_congruence, 0.10), (gen_congruence_shared, 0.06)]
    seen = set()
    while len(lines) < count:
        r = rng.random()
        acc = 0.0
        for g, p in gens:
            acc += p
            if r < acc:
                break
        res = g(rng)
        if len(res) == 4:
            n, judg, cls, ex = res
        else:
            n, judg, cls = res
            ex = []
        api = "infer" if rng.random() < 0.88 else "raw"
        if api == "raw":
            ex = []
            if n > 1 and rng.random() < 0.5:
                # fewer registered variables than mentioned: the forest meets variables it was never told about
                # (auto-insertion in find), and merge's fresh variables collide with mentioned ones
                n = n - rng.randrange(1, min(n, 4))
                judg = [(v, e) for v, e in judg if v < n]
                cls += "+unregistered"
        line = fmt(pick_order(rng), api, n, judg)
        if line in seen:
            continue
        seen.add(line)
        lines.append(line)
        classes.append(cls)
        expects.append(ex)
    return lines, classes, expects


def debug_lines(rng, k):
    out = []
    for _ in range(k):
        out.append("D sorted 1 " + " ".join(rand_te(rng, 50) for _ in range(8)))
    return out


def corpus():
    out = []
    try:
        for l in open(os.path.join(vlib.ROOT, "corpus", "C14.txt")):
            l = l.split("#")[0].strip()
            if l:
                out.append(l)
    except FileNotFoundError:
        pass
    return out


def run_balanced(ctx, name, terms, fn, pad):
    """Evaluates `fn` on every term inside Coq: one coqc per shard, the cases dealt out by size so that the shards
    are balanced; at most ~250 cases and ~1.5 MB per process. Returns [(index, code)] for the non-zero codes."""
    if not terms:
        return []
    total = sum(len(t) for t in terms)
    nsh = max(1, min(vlib.NCPU, len(terms) // 8 or 1), (len(terms) + 249) // 250, total // 1500000 + 1)
    if nsh > vlib.NCPU:
        nsh = ((nsh + vlib.NCPU - 1) // vlib.NCPU) * vlib.NCPU
    order = sorted(range(len(terms)), key=lambda i: -len(terms[i]))
    buckets = [order[k::nsh] for k in range(nsh)]
    per = max(len(b) for b in buckets)
    flat, back = [], []
    for b in buckets:
        for i in b:
            flat.append(terms[i])
            back.append(i)
        for _ in range(per - len(b)):
            flat.append(pad)
            back.append(None)
    return [(back[i], c) for i, c in vlib.run_cases(ctx, name, HEADER, flat, per_shard=per, fn=fn, timeout=900)
            if back[i] is not None]


ORDER_CODES = {60: "inside the order-free fragment, but a run did not return", 61: "members differ between Sorted and SortedReversed",
               62: "classes differ between Sorted and SortedReversed", 63: "the classes are not the congruence closure",
               64: "a class's resolved data differs between Sorted and SortedReversed"}


def order_suite(ctx, hb, lines, cov):
    """C02 at the unification stage: every generated judgement set is run by the implementation under Sorted and under
    SortedReversed; inside Coq the fragment predicate `order_free` (props/C02_unify.v: unification is PROVED independent
    of all iteration orders there) is evaluated, and inside the fragment the two results must agree and the classes must
    be the computed congruence closure."""
    js = [l for l in lines if l.startswith("J ")]
    if not js:
        return
    a = [re.sub(r"^J \S+", "J sorted", l) for l in js]
    b = [re.sub(r"^J \S+", "J sortedrev", l) for l in js]
    ok, outs, diag = vlib.run_harness_sharded(hb, ["unify"], a + b, timeout=600)
    bad_in = [i for i, t in enumerate(outs) if not t.startswith("UCase")]
    ctx.oblige("harness:unify:order-pairs", "correspondence", ok and not bad_in, "%s %s" % (diag, [outs[i][:100] for i in bad_in[:3]]))
    if not ok or bad_in:
        return
    n = len(js)
    def outcome(t):
        m = re.search(r" \((?:UOk|UBudget|UPanic|UStageErr) ", t)
        return t[m.start() + 1:t.rfind(' "J ')]
    terms = ["(%s, %s)" % (outs[i], outcome(outs[n + i])) for i in range(n)]
    bad = run_balanced(ctx, "order-pairs", terms, "check_order_pair", "(UDebug [], UBudget 0)")
    codes = collections.Counter(c for _, c in bad)
    for idx, code in sorted(bad):
        if code == 99:
            continue
        line = a[idx]
        ctx.violate("C02:unify-order:%d:%s" % (code, line[:80]),
                    "C02 (unification stage): %s on `%s`" % (ORDER_CODES.get(code, code), line[:300]),
                    {"suite": "order-pairs", "input": line, "other_order": b[idx], "code": code, "meaning": ORDER_CODES.get(code),
                     "how": "printf '%s\\n%s\\n' '<input>' '<other_order>' | build/harness-target/debug/slxh unify   (then coq/UnifyCases.v check_order_pair)",
                     "sorted": outs[idx][:2000], "sortedrev": outs[n + idx][:2000]})
    inside = n - codes.get(99, 0)
    cov["order-pairs"] = {"evaluations": n, "inside_order_free_fragment": inside, "outside": codes.get(99, 0),
                          "check_codes": {str(c): k for c, k in sorted(codes.items())}}
    ctx.log("order-pairs: %d judgement sets, %d inside the order-free fragment, codes %s" % (n, inside, dict(codes)))


def classify_programs(ctx, hb, programs, order="sorted", budget=BUDGET, limits=None):
    """For the whole-pipeline checks (C03): runs disassemble -> VM -> lift -> assign -> infer on each program (hex),
    then the REAL unify under the poll budget, and classifies the outcome inside Coq (UnifyCases.check_case).
    Returns a list of dicts {hex, outcome, code, judgements}: outcome is UOk / UBudget / UPanic / UStageErr,
    code 0 = unification halted and its result satisfies C14, 50 = did not halt and the judgement set is in the
    known class K2, 40 = did not halt OUTSIDE K2 (new), other codes as in CODES; `judgements` is the judgement
    set that reached unify in the `J .. raw ..` input syntax of the `unify` harness command (replayable)."""
    lines = ["P %s %d %s%s" % (order, budget, h, (" " + " ".join(str(x) for x in limits)) if limits else "") for h in programs]
    ok, outs, diag = vlib.run_harness_sharded(hb, ["unify"], lines, timeout=900)
    terms = ["(%s, %s)" % (t, ex_term([])) if t.startswith("UCase") else "(UDebug [], ([] : expectation))" for t in outs]
    bad = dict(vlib.run_cases(ctx, "programs", HEADER, terms, per_shard=max(1, len(terms) // vlib.NCPU + 1),
                              fn="check_case_with", timeout=900))
    res = []
    for i, (h, t) in enumerate(zip(programs, outs)):
        m = re.search(r"\((UOk|UBudget|UPanic|UStageErr)\b", t)
        j = re.search(r'"(J [^"]*)"\s*$', t)
        res.append({"hex": h, "outcome": m.group(1) if m else t[:40], "code": bad.get(i, 0),
                    "judgements": j.group(1) if j else ""})
    return res


def ex_term(ex):
    return "([" + "; ".join("(%d, %d)" % p for p in ex) + "] : expectation)"


def evaluate(ctx, hb, name, lines, expects, cov, classes):
    ok, outs, diag = vlib.run_harness_sharded(hb, ["unify"], lines, timeout=600)
    bad_in = [i for i, t in enumerate(outs) if t.startswith("BADINPUT") or t == "CHILD-DIED"]
    ctx.oblige("harness:unify:" + name, "correspondence", ok and not bad_in,
               "%s badinput=%s" % (diag, [(lines[i][:200], outs[i][:100]) for i in bad_in[:3]]))
    if not ok or bad_in:
        return
    terms = ["(%s, %s)" % (t, ex_term(e)) for t, e in zip(outs, expects)]
    bad = run_balanced(ctx, name, terms, "check_case_with", "(UDebug [], ([] : expectation))")
    codes = collections.Counter()
    outcomes = collections.Counter()
    heavy = 0
    for t in outs:
        mm = re.match(r"UCase \S+(?: \d+\))? (\d+) .*\(UOk (\d+) ", t)
        if mm and int(mm.group(2)) - int(mm.group(1)) > 1000:
            heavy += 1
        m = re.search(r"\((UOk|UBudget|UPanic|UStageErr)\b", t)
        outcomes[m.group(1) if m else ("UDebug" if t.startswith("UDebug") else "?")] += 1
    disagreements = []
    for idx, code in sorted(bad):
        codes[code] += 1
        line = lines[idx]
        replay = {"suite": name, "input": line, "code": code, "meaning": CODES.get(code),
                  "how": "printf '%s\\n' '<input>' | build/harness-target/debug/slxh unify   (then coq/UnifyCases.v check_case)",
                  "implementation": outs[idx][:3000]}
        if code == 50:
            ctx.violate("C14:K2", "%s on `%s`" % (CODES[code], line[:300]), replay)
        elif code == 51:
            ctx.violate("C14:K1", "%s on `%s`" % (CODES[code], line[:300]), replay)
        elif code >= 10:
            ctx.violate("C14:%d:%s" % (code, line[:80]), "%s on `%s`" % (CODES.get(code, code), line[:300]), replay)
        else:
            disagreements.append("%s: %s" % (line[:300], CODES.get(code, code)))
    codes[0] = len(lines) - len(bad)
    ctx.oblige("correspondence:" + name, "correspondence", not disagreements,
               "%d disagreements; first: %s" % (len(disagreements), "\n".join(disagreements[:5])))
    cov[name] = {"evaluations": len(lines), "input_classes": dict(collections.Counter(classes)),
                 "order_modes": dict(collections.Counter(l.split()[1].split(":")[0] for l in lines)),
                 "implementation_outcomes": dict(outcomes),
                 "not_compared_with_model_more_than_1000_fresh_variables": heavy,
                 "check_codes": {str(c): k for c, k in sorted(codes.items())}}
    ctx.log("%s: %d cases, codes %s, outcomes %s" % (name, len(lines), dict(codes), dict(outcomes)))


def check(ctx):
    vlib.translate(ctx)
    vlib.prove(ctx, "props/C14.v")
    if os.path.exists(os.path.join(vlib.COQ, "props/C15_unify.v")):
        # the unification-level half of C15 (its theorems are obligations of this check as well)
        saved = ctx.prop
        vlib.prove(ctx, "props/C15_unify.v")
    rc, out = vlib.coq_make(["UnifyCases.vo"])
    ctx.oblige("build:UnifyCases.vo", "build", rc == 0, out[-1500:])
    hb = vlib.harness_bin(ctx)
    cov = ctx.coverage
    if hb and rc == 0:
        if ctx.replay_in:
            import json
            rp = json.load(open(ctx.replay_in))
            lines = [rp["replay"]["input"]]
            evaluate(ctx, hb, "replay", lines, [[]], cov, ["replay"])
        else:
            cl = corpus()
            evaluate(ctx, hb, "corpus", cl, [[] for _ in cl], cov, ["corpus"] * len(cl))
            count = 2000 if ctx.quick else 40000
            lines, classes, expects = build_inputs(ctx, count)
            dl = debug_lines(ctx.rng, 40 if ctx.quick else 600)
            evaluate(ctx, hb, "random", lines + dl, expects + [[] for _ in dl], cov, classes + ["debug-text"] * len(dl))
            order_suite(ctx, hb, cl + lines, cov)
            cov["evaluations"] = sum(cov.get(k, {}).get("evaluations", 0) for k in ("corpus", "random"))
            nontrivial = 0
            for l in lines:
                # non-trivial: at least one equality and at least two pieces of non-equality evidence
                if "Eq:" in l and len(re.findall(r"\b(?:W|M|D|F|P):|Bytes|Any", l)) >= 2:
                    nontrivial += 1
            cov["distinct_nontrivial"] = nontrivial
            cov["exhaustive"] = False
    return vlib.finish(ctx, rule="inputs are distinct judgement-set lines; non-trivial = has an equality and at least two "
                       "pieces of non-equality evidence. Codes 1..9 are model/implementation disagreements (same iteration "
                       "orders on both sides), >= 10 the property predicate failing on the implementation's own result, "
                       "50/51 inside the known classes K2/K1.",
                       samples=[])
