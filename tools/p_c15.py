"""C15 (merge-level half) -- compatible evidence joins to its most specific type; contradictions conflict."""
import collections
import json

import mergelib
import vlib

MANIFEST = {
    "text": "Merge-level half of C15, in Coq over the model of unification::merge whose usage table is regenerated from WordUse::merge/size/is_definitely_signed on every run: usages form a bounded join-semilattice and wuse_merge is the least upper bound of the induced order (exhaustive case analysis over the generated table), widths are a flat lattice, and folding merge over ANY list of word evidence yields the lattice join of the family -- a known width and the most specific usage are kept, compatible words never conflict, and the result is a Conflict exactly when the family has no upper bound (two different widths or usages without a common refinement); the join does not depend on the order of the family. Any is the identity, conflicts absorb and accumulate, plainly contradictory constructors (mapping / fixed array against arrays, bytes, sized words) conflict. For three pieces of evidence without Packed: a contradiction between two of them is never silently dropped under either grouping, OUTSIDE the recorded class K1 (general theorem, all widths/variables); inside it C15_contradiction_refuted gives the witness. The same laws are evaluated on the outputs of the REAL merge for every pair and triple of C16's 40-element domain, random expressions and random word families (left folds of 2-6 words). UNIFICATION LEVEL: C15_unify_words_join (props/C15_unify.v) proves that unify resolves every packed-free class whose evidence is words to the lattice join, for every iteration order; the check also runs judgement sets of the order-free fragment (incl. constructed types sharing one variable in several component positions) through the REAL unify and requires, for every class of the congruence closure computed in Coq (proved to be unify's partition on that fragment), that each member resolves to the join of ALL evidence of the class (code 23) -- so a lost component equality shows up as evidence that was not joined. CONSTRUCTED TYPES through unification (props/C15_unify.v, proofs/UnifyCtorKept.v): C15_unify_ctor_kept -- on the order-free fragment, for every iteration order and fuel, every variable of a class that received a piece of constructed evidence e (mapping, fixed or dynamic array) resolves to exactly one type of e's constructor and length whose components lie in the classes of e's components, never a conflict. THROUGH THE LAYOUT LOOP (proofs/LayoutJoin.v): C15_layout_reports_join / C15_layout_reports_conflict -- after unifying a packed-free judgement set, for every iteration order and fuel, the layout built for a constant-slot value whose class carries word evidence is the single row (slot index, bit 0, ABI type of the join of ALL that evidence), and the conflicted type when the evidence has no join. The ORACLE of every search is the hand-written specification of compatible usages (Merge.v wuse_join_spec: bytes below everything, numeric below unsigned / signed / address, unsigned below address, everything else incomparable), not the table generated from the source; C15_usage_table_is_spec / C15_word_join_is_spec prove, against the table of every run, that the generated WordUse::merge coincides with that specification.",
    "note": "The unification-level half (resolution through union-find, rounds and component equalities) belongs to the C14 stage that "
            "builds on Merge.v. 'Contradictions conflict' is false where a DynamicArray/Bytes absorbs two contradictory words: known "
            "finding K1 (key C15:K1), same class as C16:K1, classified with the Coq predicate K1. Trusted: Coq kernel + vm_compute; "
            "translator T3; harness printer; tools/mergelib.py.",
    "technique": "Coq proof (exhaustive case analysis over the translated table, induction over the evidence list, simulation on "
                 "payload-free shapes) + differential correspondence and law evaluation inside Coq",
}

CODES = {12: "Any is not an identity / unexpected panic", 13: "a conflict does not absorb",
         14: "two words: the result is not the lattice join (width or usage lost, compatible pair reported as conflict, or "
             "incompatible pair not reported)",
         15: "plainly contradictory constructors not reported as a conflict",
         16: "a family of words: the fold is not the lattice join of the family",
         17: "a contradiction among three pieces of evidence is silently dropped, outside the known class",
         52: "a contradiction among three pieces of evidence is silently dropped inside known class K1 (array-like type absorbs both words)"}

HOW = "printf '%s\\n' '<line>' | build/harness-target/debug/slxh merge   (then coq/MergeCases.v check_case15)"


def unify_level(ctx, hb):
    """the unification-level half: judgement sets of the proved order-free fragment are run through the REAL unify; for every
    class of the congruence closure (computed in Coq, proved to be unify's partition there) whose evidence is words only,
    every member must resolve to the lattice join of all that evidence (UnifyJoinCases.closure_join_code, code 23)."""
    import re
    import p_c14
    if not hb or ctx.replay_in and "J " not in json.load(open(ctx.replay_in))["replay"].get("line", ""):
        return
    vlib.prove(ctx, "props/C15_unify.v", ["UnifyJoinCases.vo"])
    if ctx.replay_in:
        lines = [json.load(open(ctx.replay_in))["replay"]["line"]]
    else:
        rng = ctx.rng
        lines = []
        seen = set()
        n = 500 if ctx.quick else 8000
        while len(lines) < n:
            g = rng.choice([p_c14.gen_congruence, p_c14.gen_congruence_shared, p_c14.gen_congruence_shared, p_c14.gen_truth])
            res = g(rng)
            nv, judg = res[0], res[1]
            l = p_c14.fmt("sorted", "infer", nv, judg)
            if l not in seen:
                seen.add(l)
                lines.append(l)
    ok, outs, diag = vlib.run_harness_sharded(hb, ["unify"], lines, timeout=600)
    bad_in = [i for i, t in enumerate(outs) if not t.startswith("UCase")]
    ctx.oblige("harness:unify:join", "correspondence", ok and not bad_in, "%s %s" % (diag, [outs[i][:100] for i in bad_in[:3]]))
    if not ok or bad_in:
        return
    hdr = p_c14.HEADER.replace("UnifyCases.", "UnifyCases UnifyJoinCases.") if "UnifyJoinCases" not in p_c14.HEADER else p_c14.HEADER
    bad = vlib.run_cases(ctx, "unify-join", hdr, outs, per_shard=max(20, len(outs) // 32 + 1), fn="closure_join_code")
    inside = vlib.run_cases(ctx, "unify-join-inside", hdr, outs, per_shard=max(20, len(outs) // 32 + 1), fn="closure_join_inside")
    for idx, code in bad:
        ctx.violate("C15:23:%s" % lines[idx][:100],
                    "unification: a class of the congruence closure whose evidence is words only did not resolve to the join of that "
                    "evidence: %s" % lines[idx][:300],
                    {"line": lines[idx], "code": code, "impl": outs[idx][:2000],
                     "how": "printf '%s\\n' '<line>' | build/harness-target/debug/slxh unify   (then coq/UnifyJoinCases.v closure_join_code)"})
    ctx.coverage["unification_level"] = {"judgement_sets": len(lines), "inside_order_free_fragment": len(inside)}


def check(ctx):
    hb = mergelib.prepare(ctx, "props/C15.v")
    if hb:
        if ctx.replay_in:
            lines = [json.load(open(ctx.replay_in))["replay"]["line"]]
            cls = ["replay"]
        else:
            lines = mergelib.corpus("C15")
            cls = ["corpus"] * len(lines)
            dl, dc = mergelib.domain_lines(ctx, all_triples=True)
            lines += dl
            cls += dc
            n = 3000 if ctx.quick else 30000
            wl = mergelib.word_fold_lines(ctx.rng, n)
            lines += wl
            cls += ["word-family"] * len(wl)
            rl = mergelib.random_lines(ctx.rng, n, packed=False)
            lines += rl
            cls += ["random"] * len(rl)
        # the model must agree with the implementation on these inputs as well (codes 1..9 of check_case
        # are C16's correspondence obligation; here only the join laws are evaluated)
        terms, bad = mergelib.run_suite(ctx, hb, lines, "check_case15", "merge15")
        if terms is not None:
            by_code = collections.Counter(c for _, c in bad)
            seen_known = False
            other = []
            for idx, code in bad:
                what = "%s: %s" % (CODES.get(code, code), lines[idx][:300])
                replay = {"line": lines[idx], "code": code, "meaning": CODES.get(code), "impl": terms[idx][:3000], "how": HOW}
                if code == 52:
                    if not seen_known:
                        seen_known = True
                        ctx.violate("C15:K1", what, replay)
                elif code >= 10:
                    ctx.violate("C15:%d:%s" % (code, lines[idx][:120]), what, replay)
                else:
                    other.append(what)
            ctx.oblige("law-evaluation:merge15", "correspondence", not other, "\n".join(other[:10]))
            fam_sizes = collections.Counter(len(l.split()) - 3 for l, c in zip(lines, cls) if c == "word-family")
            outcome = collections.Counter()
            for t in terms:
                last = t.rsplit("IOk (mk_xres ", 1)[-1] if "IOk" in t else ""
                outcome["panic" if "IPanic" in t else ("conflict" if last.startswith("(XConflict") else "resolved")] += 1
            ctx.coverage.update({
                "evaluations": len(lines),
                "distinct_nontrivial": len(set(l for l in lines if "Any" not in l.split()[3:])),
                "traces_validated_against_impl": len(lines),
                "input_classes": dict(collections.Counter(cls)), "word_family_sizes": {str(k): v for k, v in sorted(fam_sizes.items())},
                "impl_outcomes": dict(outcome), "codes": {str(k): v for k, v in sorted(by_code.items())},
                "known_class_hits": {"C15:K1": by_code.get(52, 0)},
                "exhaustive": True,
                "exhaustive_note": "all ordered pairs and triples of C16's 40-element evidence domain; word families and random "
                                   "expressions are sampled",
            })
    unify_level(ctx, hb)
    return vlib.finish(ctx, rule="one evaluation = one harness line; distinct lines; non-trivial = no operand is Any; known-class hits "
                       "counted, one witness replayed", samples=["fold 0 6 W:160:Bytes W:-:Numeric Any W:160:Address",
                                                                 "triple 0 2 W:8:Bool W:160:Address D:0"])
