"""T10: text pins of the hand-modelled algorithms.

The algorithmic parts of the model (the VM's scheduling step, the seven irregular opcode bodies, the state containers, `merge`
and `unify`, `abi_type_for`, the union-find forest and its vector map) are written by hand and tied to the code by the
correspondence runs.  This step adds a second, cheaper tie: the normalised text (comments, whitespace, rustfmt line breaks
and trailing commas removed) of each of those items is hashed and compared with the digest of the text the model was
written from (tools/text_pins.json, regenerated only by `python3 tools/tr_textpins.py --update` on a tree whose
correspondence runs are green).  A changed item is a broken translation obligation of the properties that rest on it --
the check then searches for a failing input as usual, and reports *no-failing-input-found* when the search finds none,
instead of staying silent about a hand-modelled function that is no longer the one that was modelled."""
import hashlib
import json
import os
import re

from translate import match_brace, norm, read

PINFILE = os.path.join(os.path.dirname(os.path.abspath(__file__)), "text_pins.json")

VM_PROPS = ("C01", "C03", "C07", "C08", "C13", "C17", "C18")
TC_PROPS = ("C01", "C02", "C03", "C11", "C12", "C14", "C15", "C16")

# (step name, properties, [(file, kind, item)])
GROUPS = [
    ("T10-vm-scheduler", VM_PROPS + ("C05", "C06"),
     [("src/vm/mod.rs", "fn", "advance"), ("src/vm/mod.rs", "fn", "execute"), ("src/vm/thread.rs", "fn", "fork"),
      ("src/opcode/util.rs", "fn", "validate_jump_destination")]),
    ("T10-irregular-opcodes", VM_PROPS + ("C12",),
     [("src/opcode/control.rs", "impl", "Opcode for Jump"), ("src/opcode/control.rs", "impl", "Opcode for JumpI"),
      ("src/opcode/control.rs", "fn", "store_return_data"),
      ("src/opcode/memory.rs", "impl", "Opcode for CallDataCopy"), ("src/opcode/memory.rs", "impl", "Opcode for CodeCopy"),
      ("src/opcode/memory.rs", "impl", "Opcode for ExtCodeCopy"), ("src/opcode/memory.rs", "impl", "Opcode for ReturnDataCopy")]),
    ("T10-vm-state", VM_PROPS + ("C05", "C06"),
     [("src/vm/state/stack.rs", "file", ""), ("src/vm/state/memory.rs", "file", ""), ("src/vm/state/storage.rs", "file", "")]),
    ("T10-unification", TC_PROPS,
     [("src/tc/unification.rs", "fn", "merge"), ("src/tc/unification.rs", "fn", "unify")]),
    ("T10-abi", ("C01", "C02", "C04", "C12", "C15"),
     [("src/tc/mod.rs", "fn", "abi_type_for_impl"), ("src/tc/mod.rs", "fn", "abi_type_for")]),
    ("T10-forest", ("C01", "C14", "C19"),
     [("src/data/disjoint_set.rs", "file", ""), ("src/data/vector_map.rs", "file", "")]),
]


def strip(src):
    src = re.sub(r"#\[cfg\(test\)\]\s*mod\s+\w+\s*\{.*\Z", "", src, flags=re.S)     # the unit tests below the code
    src = re.sub(r"/\*.*?\*/", "", src, flags=re.S)
    src = re.sub(r"//[^\n]*", "", src)
    return src


def item_text(repo, path, kind, item):
    src = strip(read(repo, path))
    if kind == "file":
        return src
    if kind == "fn":
        m = re.search(r"\bfn %s\s*(?:<[^>{;]*>)?\s*\(" % re.escape(item), src)
        if not m:
            return None
        b = src.find("{", m.end())
        return src[m.start():match_brace(src, b)]
    m = re.search(r"\bimpl(?:<[^>]*>)?\s+%s\s*\{" % re.escape(item).replace(r"\ ", r"\s+"), src)
    if not m:
        return None
    return src[m.start():match_brace(src, m.end() - 1)]


def digests(repo):
    out = {}
    for name, _, items in GROUPS:
        for path, kind, item in items:
            t = item_text(repo, path, kind, item)
            out["%s::%s %s" % (path, kind, item)] = None if t is None else hashlib.sha256(norm(t).encode()).hexdigest()[:16]
    return out


def make_step(name, items):
    def step(repo, out, consts):
        pins = json.load(open(PINFILE))
        problems = []
        for path, kind, item in items:
            key = "%s::%s %s" % (path, kind, item)
            t = item_text(repo, path, kind, item)
            if t is None:
                problems.append("%s: not found" % key)
                continue
            d = hashlib.sha256(norm(t).encode()).hexdigest()[:16]
            if d not in pins.get(key, []):
                problems.append("%s: text changed (digest %s, modelled %s)" % (key, d, ",".join(pins.get(key, [])) or "-"))
        return problems, {"items": len(items)}
    return step


steps = [(name, make_step(name, items), props) for name, props, items in GROUPS]

if __name__ == "__main__":
    import sys
    if "--update" in sys.argv:
        repo = [a for a in sys.argv[1:] if not a.startswith("--")]
        d = digests(repo[0] if repo else "/repo")
        missing = [k for k, v in d.items() if v is None]
        if missing:
            raise SystemExit("items not found: %s" % missing)
        json.dump({k: [v] for k, v in sorted(d.items())}, open(PINFILE, "w"), indent=1)
        print("pinned %d items" % len(d))
