"""PASSES_SLOTS -- support suite for C04 / C05 / C06: the six slot-related lifting passes.

Not a property check by itself: it proves props/PassesSlots.v, ties coq/PassesSlots.v to src/tc/lift (translator
T8 + pass-by-pass correspondence) and evaluates the C04/C05/C06 predicates on the implementation's own output."""
import collections
import json
import os
import re

import gen
import vlib

MANIFEST = {
    "not_applicable": "support suite for C04/C05/C06; run through those checks",
    "text": "Coq model of the six slot-related lifting passes (recognise_hashed_slots, proxy_slots, mapping_index, "
            "dynamic_array_access, storage_slots, mapping_offset) with theorems for ALL value trees: lifted nodes "
            "appear only at or below storage accesses (C05_lifts_only_under_access, C05_no_storage_no_slot), only in "
            "key sub-trees outside the K3 class (C05_lifts_only_in_keys_outside_K3; K3_refuted), literal keys at "
            "exposed positions are wrapped as slots (C06_*), mapping nests of EVERY depth, dynamic arrays and "
            "keccak(small slot) constants are recognised (lift_mapping_nest, lift_dyn_array, recognise_hashed_slot).",
    "note": "Trusted: Coq kernel + vm_compute; translator T8 (default order, SLOT_COUNT, proxy constants, pattern "
            "shapes, whole-body pins of the six impl Lift blocks); the harness (cmd_lift.rs) and generators bound how "
            "well model = code is known; keccak is a Section variable, instantiated in correspondence runs by the "
            "harness's sha3 crate; the slot table is the implementation's own export, cross-checked against an "
            "independent pure-Python keccak-256.",
    "technique": "Coq proof over a hand-written structural model; differential correspondence pass by pass on random, "
                 "idiom and VM-produced trees; property predicates evaluated inside Coq on the implementation's output",
}

M = 2 ** 256
SIX = ["StorageSlotHashes", "ProxySlots", "MappingIndex", "DynamicArrayIndex", "StorageSlots", "MappingOffset"]
OTHER3 = ["SubWordValue", "MulShiftedValue", "PackedEncoding"]

# ------------------------------------------------------------------------------------------ keccak (independent)

from keccak import keccak256, _f1600  # noqa: F401  (moved to tools/keccak.py)


def ref_table(n):
    """[(keccak(be32 i))] for i < n, computed by the code above; cached (a pure function of n)."""
    path = os.path.join(vlib.BUILD, "keccak_ref_%d.json" % n)
    try:
        t = json.load(open(path))
        if len(t) == n:
            return [int(x, 16) for x in t]
    except (OSError, ValueError):
        pass
    t = [keccak256(i.to_bytes(32, "big")) for i in range(n)]
    os.makedirs(vlib.BUILD, exist_ok=True)
    json.dump([hex(x) for x in t], open(path, "w"))
    return t


# ------------------------------------------------------------------------------------------ trees

def signature():
    """tag -> [(field, kind)] read from the generated coq/gen/ValueSig.v"""
    src = open(os.path.join(vlib.COQ, "gen", "ValueSig.v")).read()
    m = re.search(r"Definition tag_fields .*?\n  end\.", src, flags=re.S)
    sig = collections.OrderedDict()
    for tm in re.finditer(r"\| T_(\w+) => \[(.*?)\]\n", m.group(0)):
        sig[tm.group(1)] = re.findall(r'\("(\w+)"%string, (\w+)\)', tm.group(2))
    return sig


def kd(w):
    return "(KnownData [0x%x])" % (w % M)


def node(tag, kids, attrs=""):
    return "(%s [%s]%s)" % (tag, attrs, "".join(" " + k for k in kids))


def ascii_word(s):
    b = s.encode()[:32]
    return int.from_bytes(b + bytes(32 - len(b)), "big")


STRINGS = ["eip1967.proxy.implementation", "eip1967.proxy.admin", "a", "org.zeppelinos.proxy.implementation",
           "PROXIABLE", "owner", "x" * 32, "a storage slot name that is longer than one word!!"]


def string_words(s):
    b = s.encode()
    b += bytes((-len(b)) % 32)
    return [int.from_bytes(b[i:i + 32], "big") for i in range(0, len(b), 32)]


class Gen:
    def __init__(self, ctx, table):
        self.rng = ctx.rng
        self.sig = signature()
        self.tags = list(self.sig)
        self.table = table
        self.bw = gen.boundary_words()
        self.hot = ["SLoad", "StorageWrite", "UnwrittenStorageValue", "Sha3", "Concat", "Add", "KnownData",
                    "MappingIndex", "DynamicArrayIndex", "StorageSlot", "Value", "Caller", "And", "CallData"]

    def word(self):
        r = self.rng
        x = r.random()
        if x < 0.30:
            return r.randrange(0, 12)
        if x < 0.45:
            return self.table[r.choice([0, 1, 2, 3, 5, 77, len(self.table) - 2, len(self.table) - 1])]
        if x < 0.50:
            return keccak256((len(self.table) + r.randrange(0, 2)).to_bytes(32, "big"))
        if x < 0.62:
            return ascii_word(r.choice(STRINGS))
        if x < 0.70:
            return r.choice([0x20, 0x1c, 0x13, 1, 64, 96])
        if x < 0.80:
            return r.choice(self.bw)
        if x < 0.86:
            return 2 ** 64 + r.randrange(0, 5)
        if x < 0.92:   # printable but for one byte
            b = bytearray(r.choice([0x20, 0x7e, 0x41]) for _ in range(32))
            b[r.randrange(32)] = r.choice([0x1f, 0x7f, 0x00, 0x80, 0x20])
            return int.from_bytes(b, "big")
        return r.getrandbits(256)

    def leaf(self):
        r = self.rng
        x = r.random()
        if x < 0.55:
            return kd(self.word())
        if x < 0.8:
            return "(Value [%d])" % r.randrange(1, 6)
        return "(%s [])" % r.choice(["Caller", "CallValue", "CallDataSize", "Address", "Origin", "Gas"])

    def tree(self, d):
        r = self.rng
        if d <= 0 or r.random() < 0.18:
            return self.leaf()
        t = r.choice(self.hot) if r.random() < 0.6 else r.choice(self.tags)
        attrs, kids = [], []
        for _, k in self.sig[t]:
            if k == "FChild" and t == "Shifted":
                # representation invariant kept by every producer (mul_shifted.rs): Shifted wraps a SubWord;
                # packed_encoding.rs panics ("Shift of non-sub-word") on hand-made trees that break it
                kids.append("(SubWord [%d %d] %s)" % (r.choice([0, 8, 160]), r.choice([8, 96, 160]), self.tree(d - 2)))
            elif k == "FChild":
                kids.append(self.tree(d - 1))
            elif k == "FChildren":
                n = r.choice([0, 1, 1, 2, 2, 2, 3, 4])
                kids.extend(self.tree(d - 1) for _ in range(n))
            elif k == "FId":
                attrs.append(str(r.randrange(1, 6)))
            elif k == "FWord":
                attrs.append("0x%x" % self.word())
            elif k == "FUsize":
                attrs.append(str(r.choice([0, 8, 16, 160, 255, 256])))
            elif k == "FOptUsize":
                attrs.extend(r.choice([["0"], ["0"], ["1", str(r.randrange(0, 4))], ["1", str(2 ** 40)]]))
            elif k == "FSpans":
                for _ in range(r.randrange(0, 3)):
                    attrs.extend([str(r.choice([0, 8, 160])), str(r.choice([8, 96, 160]))])
                    kids.append(self.tree(d - 1))
        return "(%s [%s]%s)" % (t, " ".join(attrs), "".join(" " + k for k in kids))

    # ---- idioms
    def key(self):
        r = self.rng
        return r.choice([
            "(Value [%d])" % r.randrange(1, 6), "(Caller [])",
            node("And", [kd(2 ** 160 - 1), "(Caller [])"]),
            node("And", ["(CallData [1] %s %s)" % (kd(4), kd(32)), kd(2 ** 160 - 1)]),
            "(CallData [%d] %s %s)" % (r.randrange(1, 4), kd(4 + 32 * r.randrange(0, 3)), kd(32)),
            kd(r.randrange(0, 9)), kd(ascii_word(r.choice(STRINGS))), kd(r.getrandbits(160)),
            node("SLoad", [kd(r.randrange(0, 5)), node("UnwrittenStorageValue", [kd(r.randrange(0, 5))])]),
        ])

    def slot(self):
        r = self.rng
        return r.choice([r.randrange(0, 20), r.randrange(0, 20), 2 ** 200 + r.randrange(0, 3), r.choice(self.bw),
                         r.getrandbits(256), 9999, 10000, M - 1, 0])

    def nest(self, d, slot=None):
        t = kd(self.slot() if slot is None else slot)
        for _ in range(d):
            t = node("Sha3", [node("Concat", [self.key(), t])])
        return t

    def dyn(self):
        r = self.rng
        s = self.slot() if r.random() < 0.5 else r.randrange(0, 10000)
        h = r.choice([node("Sha3", [node("Concat", [kd(s)])]), node("Sha3", [kd(s)]),
                      kd(keccak256((s % M).to_bytes(32, "big"))),
                      node("Sha3", [node("Concat", [node("Add", [kd(s), kd(0)])])]),
                      node("Sha3", [node("Concat", [kd(s), kd(1)])]), node("Sha3", [node("Concat", [])]),
                      node("Sha3", [self.nest(r.randrange(1, 3))])])
        idx = r.choice([self.key(), kd(r.randrange(0, 5)), node("Multiply", [kd(2), "(Value [1])"])])
        return node("Add", [h, idx] if r.random() < 0.7 else [idx, h])

    def proxy(self):
        r = self.rng
        s = r.choice(STRINGS)
        ws = string_words(s)
        enc = [0x20, len(s.encode()) + r.choice([0, 0, 0, 1])] + ws
        h = r.choice([node("Sha3", [kd(ascii_word(s))]), node("Sha3", [node("Concat", [kd(w) for w in ws])]),
                      node("Sha3", [node("Concat", [kd(w) for w in enc])]),
                      node("Sha3", [node("Concat", [node("Add", [kd(w), kd(0)]) for w in ws])]),
                      node("Sha3", [node("Concat", [kd(ws[0]), "(Value [1])"])]),
                      node("Sha3", [kd(r.getrandbits(256))]), node("Sha3", [kd(r.randrange(0, 10))])])
        return r.choice([h, node("Add", [h, kd(r.choice([1, M - 1, 5]))]), node("Add", [kd(M - 1), h]),
                         node("Subtract", [h, kd(1)]), node("Add", [h, "(Value [2])"]), node("Add", [h, h])])

    def keyish(self):
        r = self.rng
        x = r.random()
        if x < 0.40:
            return self.nest(r.randrange(1, 7)), "nest"
        if x < 0.55:
            return self.dyn(), "dyn-array"
        if x < 0.67:
            return kd(self.table[r.choice([0, 1, 7, len(self.table) - 1])] if r.random() < 0.8 else keccak256(len(self.table).to_bytes(32, "big"))), "hashed-const"
        if x < 0.80:
            return self.proxy(), "proxy"
        if x < 0.90:
            return node("Add", [self.nest(r.randrange(1, 3)), kd(r.choice([1, 2, 2 ** 64 + 3, 2 ** 56]))] [::r.choice([1, -1])]), "mapping-offset"
        return kd(r.choice([0, 1, 7, 2 ** 64, 2 ** 128 + 5, M - 1, 0x360894a13ba1a3210667c828492db98dca3e2076cc3735a920a3ca505d382bbc])), "literal"

    def access(self, k, v=None):
        r = self.rng
        v = v or r.choice([self.leaf(), "(Value [9])", node("UnwrittenStorageValue", [k])])
        x = r.random()
        if x < 0.45:
            return node("SLoad", [k, v])
        if x < 0.9:
            return node("StorageWrite", [k, v])
        return node("UnwrittenStorageValue", [k])

    def idiom(self):
        r = self.rng
        k, cls = self.keyish()
        x = r.random()
        if x < 0.6:
            return self.access(k), cls
        if x < 0.72:   # hash-shaped VALUE (K3 class)
            return self.access(kd(r.randrange(0, 4)), k), "value:" + cls
        if x < 0.86:   # look-alike outside every storage access
            w = r.choice(["Return", "Revert", "IsZero", "Not", "Balance"])
            return node(w, [k]), "lookalike:" + cls
        # buried: an access below unrelated operators
        inner = self.access(k)
        return node(r.choice(["And", "Or", "Equals", "Multiply"]), [inner, self.leaf()] [::r.choice([1, -1])]), "buried:" + cls


# ------------------------------------------------------------------------------------------ Coq term -> text

def coq_to_sexp(term):
    """`(Node T_X [a;b] [kids;...])` -> `(X [a b] kids...)`"""
    toks = re.findall(r"\(|\)|\[|\]|;|[^\s()\[\];]+", term)
    pos = 0

    def val():
        nonlocal pos
        assert toks[pos] == "(" and toks[pos + 1] == "Node", toks[pos:pos + 3]
        tag = toks[pos + 2][2:]
        pos += 3
        assert toks[pos] == "["
        pos += 1
        attrs = []
        while toks[pos] != "]":
            if toks[pos] != ";":
                attrs.append(toks[pos])
            pos += 1
        pos += 1
        assert toks[pos] == "["
        pos += 1
        kids = []
        while toks[pos] != "]":
            if toks[pos] == ";":
                pos += 1
            else:
                kids.append(val())
        pos += 1
        assert toks[pos] == ")"
        pos += 1
        return "(%s [%s]%s)" % (tag, " ".join(attrs), "".join(" " + k for k in kids))

    out = []
    if toks and toks[0] == "[":      # a list of values
        pos = 1
        while toks[pos] != "]":
            if toks[pos] == ";":
                pos += 1
            else:
                out.append(val())
        return out
    return val()


def split_case(line):
    """(mk_lcase MODE IN ORACLE RES) -> the RES text"""
    depth = 0
    parts = []
    start = None
    body = line[len("(mk_lcase "):-1]
    i = 0
    cur = ""
    for ch in body:
        if ch in "([":
            depth += 1
        elif ch in ")]":
            depth -= 1
        if ch == " " and depth == 0:
            if cur:
                parts.append(cur)
            cur = ""
        else:
            cur += ch
    if cur:
        parts.append(cur)
    return parts      # [mode, input, oracle, result]


def out_tree(res):
    """first tree of `(LOk t)` / `(LOk2 t9 t6)`, or None"""
    if not res.startswith("(LOk"):
        return None
    i = res.index("(Node")
    depth = 0
    for j in range(i, len(res)):
        if res[j] == "(":
            depth += 1
        elif res[j] == ")":
            depth -= 1
            if depth == 0:
                return res[i:j + 1]
    return None


# ------------------------------------------------------------------------------------------ programs for the real VM

def idiom_programs(ctx, n):
    """programs that build mapping / dynamic-array / look-alike hashes in memory and (mostly) use them as storage keys"""
    rng = ctx.rng
    bw = gen.boundary_words()
    progs = []
    for _ in range(n):
        a = gen.Asm()
        kind = rng.choice(["map", "map", "map", "dyn", "lookalike", "proxy", "valuehash", "literal", "random"])
        if kind == "random":
            progs.append((gen.random_program(rng, bw, n_ops=rng.randrange(5, 40)), "random-program"))
            continue

        def key():
            c = rng.random()
            if c < 0.4:
                a.push(4 + 32 * rng.randrange(0, 3)).op("CALLDATALOAD")
            elif c < 0.6:
                a.op("CALLER")
            elif c < 0.8:
                a.op("CALLER").push(2 ** 160 - 1, 20).op("AND")
            else:
                a.push(rng.choice([1, 7, ascii_word("owner")]))

        def mapping(depth, slot):
            a.push(slot)
            for _ in range(depth):       # stack: T
                a.push(0x20).op("MSTORE")
                key()
                a.push(0).op("MSTORE")
                a.push(0x40).push(0).op("SHA3")

        slot = rng.choice([rng.randrange(0, 12), 2 ** 200 + 1, rng.choice(bw), 9999, 77])
        if kind in ("map", "valuehash", "lookalike"):
            mapping(rng.randrange(1, 5), slot)
        elif kind == "dyn":
            a.push(slot).push(0).op("MSTORE").push(0x20).push(0).op("SHA3")
            if rng.random() < 0.5:
                key()
                a.op("ADD")
            else:
                key()
                a.raw([0x90]).op("ADD") if rng.random() < 0.5 else a.op("ADD")
        elif kind == "proxy":
            s = rng.choice(STRINGS)
            ws = string_words(s)
            for i, w in enumerate(ws):
                a.push(w, 32).push(32 * i).op("MSTORE")
            a.push(32 * len(ws)).push(0).op("SHA3")
            if rng.random() < 0.5:
                a.push(1).raw([0x90]).op("SUB")
        elif kind == "literal":
            a.push(rng.choice([0, 3, 2 ** 64, 2 ** 128 + 1, M - 1, keccak256((5).to_bytes(32, "big"))]))
        # stack: K
        if kind == "lookalike":
            a.push(0).op("MSTORE").push(0x20).push(0).op(rng.choice(["RETURN", "REVERT"]))
        elif kind == "valuehash":
            a.push(rng.randrange(0, 4)).op("SSTORE").op("STOP")
        else:
            c = rng.random()
            if c < 0.4:
                a.op("SLOAD").push(0).op("MSTORE").push(0x20).push(0).op("RETURN")
            elif c < 0.8:
                a.push(rng.choice([1, 2 ** 160 - 1])).op("CALLER").op("AND").raw([0x90]).op("SSTORE").op("STOP")
            else:
                a.raw([0x80]).op("SLOAD").push(1).op("ADD").raw([0x90]).op("SSTORE").op("STOP")
        progs.append((a.assemble(), "vm:" + kind))
    return progs


CODES = {1: "model tree differs from the implementation's", 2: "the implementation failed or panicked (the model cannot)",
         3: "result form does not fit the mode",
         10: "phantom: lifted node outside every storage access (none in the input)",
         11: "a literal storage key at an exposed position was lost",
         12: "mapping nest used as storage key not recognised", 13: "dynamic-array key not recognised",
         14: "keccak(small slot) constant used as storage key not recognised"}


def hexify(line):
    # coqc reads long decimal literals slowly; hexadecimal literals are read in linear time
    return re.sub(r"\b\d{10,}\b", lambda m: hex(int(m.group(0))), line)


def export_table(ctx, hb):
    """the implementation's own table -> Coq module SLXT.SlotTable; cross-check against the independent keccak"""
    rc, out, err = vlib.run_harness(hb, ["lift", "table"], "")
    rows = [l.split() for l in out.strip().split("\n")] if rc == 0 else []
    ok = rc == 0 and rows and rows[-1][0] == "count"
    ctx.oblige("harness:lift-table", "correspondence", bool(ok), err[-300:])
    if not ok:
        return None, None
    pairs = [(int(s), int(h)) for s, h in rows[:-1]]
    src = open(os.path.join(vlib.COQ, "gen", "PassOrder.v")).read()
    n = int(re.search(r"Definition SLOT_COUNT : N := (\d+)\.", src).group(1))
    ref = ref_table(n)
    # the exported table is what `make_hashes(SLOT_COUNT)` holds; it must be keccak(be32 i) for i < SLOT_COUNT
    wrong = [(s, h) for s, h in pairs if not (0 <= s < n and ref[s] == h)]
    missing = sorted(set(range(n)) - {s for s, _ in pairs})
    if wrong or missing or len(pairs) != n:
        w = ("slot %d -> %x" % wrong[0]) if wrong else ("slot %d absent" % missing[0] if missing else "size %d" % len(pairs))
        ctx.violate("PASSES_SLOTS:table", "make_hashes(SLOT_COUNT) is not {keccak(be32 i) -> i | i < %d}: %s" % (n, w),
                    {"how": "build/harness-target/debug/slxh lift table", "first": w})
    d = os.path.join(vlib.BUILD, "cases", ctx.prop, "table")
    os.makedirs(d, exist_ok=True)
    # the kernel type-checks a 256-bit `N` literal as 256 nested constructors (40 s for the table); the entries are
    # therefore shipped as 52-bit primitive-integer limbs and joined inside vm_compute, once per coqc process
    body = ("From Coq Require Import List NArith ZArith Uint63.\nImport ListNotations.\nOpen Scope uint63_scope.\n"
            "Fixpoint join (l : list int) : list (N * N) :=\n  match l with\n  | s :: a :: b :: c :: d :: e :: r =>\n"
            "      let n (x : int) := Z.to_N (to_Z x) in\n"
            "      ((n a + N.shiftl (n b) 52 + N.shiftl (n c) 104 + N.shiftl (n d) 156 + N.shiftl (n e) 208)%N, n s) :: join r\n"
            "  | _ => []\n  end.\n")
    chunks = [pairs[i:i + 500] for i in range(0, len(pairs), 500)]
    for k, c in enumerate(chunks):
        body += "Definition r%d : list int := [\n" % k + ";\n".join(
            "%d;" % s_ + ";".join(str((h >> (52 * i)) & (2 ** 52 - 1)) for i in range(5)) for s_, h in c) + "].\n"
    body += "Definition slot_table : list (N * N) := join (concat [%s]).\n" % ";".join("r%d" % k for k in range(len(chunks)))
    refpairs = list(enumerate(ref))
    if refpairs == sorted(pairs):
        body += "Definition ref_table : list (N * N) := slot_table.\n"
    else:
        rchunks = [refpairs[i:i + 500] for i in range(0, len(refpairs), 500)]
        for k, c in enumerate(rchunks):
            body += "Definition q%d : list int := [\n" % k + ";\n".join(
                "%d;" % s_ + ";".join(str((h >> (52 * i)) & (2 ** 52 - 1)) for i in range(5)) for s_, h in c) + "].\n"
        body += "Definition ref_table : list (N * N) := join (concat [%s]).\n" % ";".join("q%d" % k for k in range(len(rchunks)))
    changed = vlib.write_if_changed(os.path.join(d, "SlotTable.v"), body)
    if changed or not os.path.exists(os.path.join(d, "SlotTable.vo")):
        rc, o = vlib.sh("coqc -noglob -Q %s SLXT %s" % (d, os.path.join(d, "SlotTable.v")), timeout=300)
        ctx.oblige("build:SlotTable", "build", rc == 0, o[-800:])
        if rc != 0:
            return None, None
    return d, ref


RULE = ("inputs are distinct `<pass> <tree>` lines (dict keys); non-trivial tree = contains a hash or a storage access; "
        "every case is run through the real pass and evaluated in Coq by PassesSlotsCases.check_case with the "
        "implementation's own slot table (model) and the independently computed one (property predicates)")


def check(ctx):
    samples = suite(ctx)
    return vlib.finish(ctx, rule=RULE, samples=samples or [])


def suite(ctx, translate=True, codes=None, cov_key=None, only=None):
    """everything but the verdict; C04 / C05 / C06 call this from their own check(ctx) (translate=False when they
    have translated already).  Obligations, violations and coverage are recorded in ctx; returns sample inputs."""
    if ctx.replay_in and vlib.stage_replay(ctx) != "slots":
        return None
    if translate:
        vlib.translate(ctx)
        ctx.log("translated")
    vlib.prove(ctx, "props/PassesSlots.v", ["PassesSlotsCases.vo"], only=only)
    rc, out = vlib.coq_make(["PassesSlotsCases.vo"])
    ctx.oblige("build:PassesSlotsCases.vo", "build", rc == 0, out[-1500:])
    ctx.log("proved")
    hb = vlib.harness_bin(ctx)
    if not hb:
        return None
    tdir, table = export_table(ctx, hb)
    if not tdir:
        return None
    ctx.log("table exported; reference table has %d entries" % len(table))
    g = Gen(ctx, table)      # inputs are generated from the independent reference table
    rng = ctx.rng
    trees = collections.OrderedDict()     # tree text -> class

    def add(t, cls):
        trees.setdefault(t, cls)

    try:
        for l in open(os.path.join(vlib.ROOT, "corpus", "PASSES_SLOTS.txt")):
            l = l.split("#")[0].strip()
            if l:
                add(l, "corpus")
    except FileNotFoundError:
        pass
    n_rand, n_idiom, n_prog = (350, 420, 100) if ctx.quick else (5000, 5000, 1200)
    for _ in range(n_idiom):
        t, cls = g.idiom()
        add(t, cls)
    for _ in range(n_rand):
        d = rng.choice([1, 2, 3, 3, 4, 4, 5])
        add(g.tree(d), "random depth<=%d" % d)
    # trees produced by the real VM
    progs = idiom_programs(ctx, n_prog)
    cfg = (30000000, 10, 50, 250, 394, 1)
    vm_lines = [gen.vm_line(code, cfg) for code, _ in progs]
    ok, vout, diag = vlib.run_harness_sharded(hb, ["lift", "vm"], vm_lines)
    ctx.oblige("harness:lift-vm", "correspondence", ok, diag[-500:])
    vm_values = 0
    vm_cap = 450 if ctx.quick else 6000
    vm_hist = collections.Counter()
    for (code, cls), l in zip(progs, vout):
        if not l.startswith("["):
            vm_hist[cls + ":" + l.split()[0]] += 1
            continue
        vals = coq_to_sexp(l)
        if len(vals) > 8:          # a few values per program, storage accesses first
            acc = [v for v in vals if "SLoad" in v or "StorageWrite" in v]
            rest = [v for v in vals if v not in acc]
            rng.shuffle(acc)
            rng.shuffle(rest)
            vals = (acc[:6] + rest)[:8]
        for t in vals:
            if vm_values >= vm_cap:
                break
            vm_values += 1
            add(t, cls)
        vm_hist[cls] += 1
    ctx.log("%d trees (%d values from %d VM runs)" % (len(trees), vm_values, len(progs)))

    if ctx.replay_in:
        rp = json.load(open(ctx.replay_in))["replay"]
        trees = collections.OrderedDict([(rp["tree"], "replay")])

    # stage 0: every pass directly on every tree, the six-pass pipeline and the real default pipeline
    inputs = []          # (line, class)
    for t, cls in trees.items():
        for p in SIX + ["all6", "default"]:
            inputs.append(("%s %s" % (p, t), cls))
        if cls.startswith("random") and rng.random() < 0.3:
            for p in OTHER3:
                inputs.append(("%s %s" % (p, t), cls))
    cases = []           # (input line, class, output line)

    def run(batch):
        ok, lines, diag = vlib.run_harness_sharded(hb, ["lift"], [b[0] for b in batch])
        bad = [l for l in lines if not l.startswith("(mk_lcase")]
        ctx.oblige("harness:lift", "correspondence", ok and not bad, (diag + " " + " | ".join(bad[:3]))[-600:])
        return [(b[0], b[1], l) for b, l in zip(batch, lines) if l.startswith("(mk_lcase")]

    cases += run(inputs)
    # stage k: pass k on what the implementation produced at stage k-1 (pass-by-pass on real intermediate trees)
    chain = [(t, cls) for t, cls in trees.items() if not cls.startswith("random")]
    cur = [(t, cls) for t, cls in chain]
    for k, p in enumerate(SIX):
        batch = [("%s %s" % (p, t), cls) for t, cls in cur]
        res = run(batch) if batch else []
        nxt = []
        for (line, cls, outl) in res:
            ot = out_tree(split_case(outl)[3])
            if ot is not None:
                nxt.append((coq_to_sexp(ot), cls))
            if k > 0:
                cases.append((line, cls, outl))
        cur = nxt
    seen = set()
    uniq = []
    for c in cases:
        if c[0] not in seen:
            seen.add(c[0])
            uniq.append(c)
    cases = uniq
    ctx.log("%d cases through the real passes" % len(cases))

    header = ('From Coq Require Import String.\nAdd LoadPath "%s" as SLXT.\nFrom SLXT Require Import SlotTable.\n'
              "From SLX Require Import Base Word256 gen.ValueSig gen.PassOrder SymVal PassesSlots PassesSlotsCases.\n"
              "Open Scope N_scope.\n" % tdir)
    terms = [hexify(c[2]) for c in cases]
    bad = vlib.run_cases(ctx, "lift", header, terms, per_shard=min(800, max(50, (len(terms) + 15) // 16)), fn="check_case slot_table ref_table", timeout=900)
    ctx.log("cases evaluated")
    disagreements = []
    for idx, code in bad:
        line, cls, outl = cases[idx]
        what = CODES.get(code, str(code))
        pname, tree = line.split(" ", 1)
        if code >= 10:
            if codes is not None and code not in codes:
                continue            # decided by another property's check (C04: 12-14, C05: 10, C06: 11)
            ctx.violate("PASSES_SLOTS:%d:%s" % (code, line[:80]),
                        "%s: pass %s on `%s` (%s); implementation returned %s" % (what, pname, tree[:400], cls, split_case(outl)[3][:400]),
                        {"pass": pname, "tree": tree, "code": code, "meaning": what, "impl": outl[:4000],
                         "how": "printf '%s\\n' '<pass> <tree>' | build/harness-target/debug/slxh lift"})
        else:
            disagreements.append("%s: %s [%s] (impl %s)" % (line[:300], what, cls, split_case(outl)[3][:300]))
    ctx.oblige("correspondence:lift", "correspondence", not disagreements, "\n".join(disagreements[:8]))

    changed = len([c for c in cases if (lambda p: out_tree(p[3]) != p[1])(split_case(c[2]))])
    per_pass = collections.Counter(c[0].split(" ", 1)[0] for c in cases)
    cov = ctx.coverage if cov_key is None else ctx.coverage.setdefault(cov_key, {})
    cov.update({
        "evaluations": len(cases),
        "distinct_inputs": len(trees),
        "distinct_nontrivial": len([t for t in trees if ("Sha3" in t or "SLoad" in t or "StorageWrite" in t)]),
        "cases_where_the_pass_changed_the_tree": changed,
        "traces_validated_against_impl": len(cases),
        "input_classes": dict(collections.Counter(trees.values()).most_common(60)),
        "cases_per_pass": dict(per_pass),
        "vm_runs": dict(vm_hist),
        "table_entries": len(table),
        "exhaustive": False,
    })
    return [c[0] for c in cases[:2]] + [c[0] for c in cases if c[1].startswith("vm:")][:2]
