"""C17 -- strict mode surfaces every execution error; permissive mode tolerates bad jumps."""
import collections
import json

import gen
import vlib

MANIFEST = {
    "text": "Coq theorems over the VM model for EVERY program, all limits, every folding function: in strict mode every error an iteration raises (thread-ending or stored by JUMPI) is appended to the error list and never dropped; every listed error lies inside the code; permissive mode never records one of the four jump-target kinds (JUMP or JUMPI); the flag changes nothing but the error list (same retired states, queue, fork counters, gas) and permissive errors are a subset of strict errors, so when strict mode succeeds permissive mode succeeds on the same states. In the model the flag is read in exactly one place; the tie to the code is the correspondence run of the real VM in BOTH modes, and the property predicate is evaluated on the implementation's own outputs including the layouts of both whole analyses. Against the independent reference EVM (loop-free programs, generous limits): a bad jump the reference reaches must surface in strict mode (38), and EVERY fault the reference reaches -- bad destination or stack fault, per offset and class, also when several paths fault differently at one shared instruction -- must be in strict mode's list (39). End to end, on the composed model of the whole analysis (coq/Pipeline.v), for every program, limits, iteration-order mode and fuel: pipeline_strict_success_same_as_permissive (a layout in strict mode is the layout in permissive mode) and pipeline_permissive_errors_subset; the model is run in both modes against the real analysis in both modes. C17_gas_exceeded_listed (proofs/VmGasError.v): in the VM model, for every program, configuration and run, every entry of the retirement log whose gas account exceeds the limit has a GasLimitExceeded error listed at that instruction. Running out of gas is an execution error in both modes: on the implementation's own retirement log, a thread retired with a gas account above the limit must have a GasLimitExceeded error listed at that instruction (code 40), searched with every gas limit from 1 to just above the total gas of short paths whose last charged instruction also ends the thread for another reason (end of code, unknown jump target, visit limit) or does not.",
    "note": "Trusted: Coq kernel + vm_compute; translator T1/T9; harness; hooks H2/H3. With a watchdog stop the Rust code returns only "
            "the StoppedByWatchdog error (earlier errors are dropped by the early return): the persistence theorem is about the error "
            "buffer, the check uses a never-stopping watchdog.",
    "technique": "Coq proof (iff-characterisation of error recording per main-loop iteration, simulation between the two modes); "
                 "differential correspondence in both modes evaluated inside Coq",
}

CODES = {30: "result class does not match the error list", 31: "error located outside the code",
         32: "permissive mode recorded a jump-target error", 33: "states differ between strict and permissive mode",
         34: "permissive mode recorded an error strict mode did not", 35: "permissive mode dropped a non-jump error",
         39: "a fault the reference EVM reaches (bad jump destination / stack fault at that offset) is missing from strict mode's error list",
         38: "the reference EVM reaches a jump with a bad destination, yet strict mode reported no error",
         40: "a thread was retired with more gas than the limit, yet no GasLimitExceeded error is listed at that instruction",
         36: "strict mode returned a layout but permissive mode failed or returned a different layout", 37: "panic"}


def check(ctx):
    vlib.translate(ctx)
    vlib.prove(ctx, "props/C17.v", ["VmCases.vo", "SimCases.vo"])
    hb = vlib.harness_bin(ctx)
    rng = ctx.rng
    bw = gen.boundary_words()
    progs = collections.OrderedDict()
    try:
        for l in open(vlib.ROOT + "/corpus/C17.txt"):
            l = l.split("#")[0].strip()
            if l:
                f = l.split()
                progs.setdefault((bytes.fromhex(f[0]), tuple(int(x) for x in f[1:6])), "corpus")
    except FileNotFoundError:
        pass
    n = 600 if ctx.quick else 8000
    for code in gen.error_programs(rng, bw, n):
        lim = (rng.choice([200, 2000, 30000000]), rng.randrange(1, 8), rng.randrange(1, 20), rng.choice([5, 250]), 394)
        progs.setdefault((code, lim), "errors")
    for _ in range(100 if ctx.quick else 1500):
        cfg = gen.random_config(rng)
        progs.setdefault((gen.random_program(rng, bw, n_ops=rng.choice([10, 30]), hostile=0.15), cfg[:5]), "random")
    # loop-free programs with constant jump targets of every kind under generous limits: here the reference EVM decides
    # whether a bad jump is reachable, and strict mode must then report an error (code 38)
    for code in gen.c08_programs(rng, bw, 250 if ctx.quick else 4000):
        progs.setdefault((code, (30000000, 10, 50, 250, 394)), "reference-jumps")
    # the stack limit: 1023 / 1024 items, then every kind of instruction that grows the stack (a PUSH, a DUPn, PC, an
    # environment read) -- at 1024 it must raise StackDepthExceeded, listed in strict mode, fatal in permissive mode
    for depth in (1023, 1024):
        for grow in ([0x5f], [0x60, 0x01], [0x80], [0x8f], [0x58], [0x33], [0x36], [0x80, 0x50], [0x90], [0x50]):
            code = bytes([0x5f] * depth + grow + [0x00])
            progs.setdefault((code, (30000000, 10, 50, 250, 394)), "stack-limit")
    # tight gas limits: every limit from 1 up to a little above the total gas of a short path whose LAST charged instruction
    # also ends the thread for another reason (falling off the end of the code, a jump to an unknown target, the visit limit
    # at a loop's back edge) or does not (a STOP behind it) -- running out of gas is an execution error in both modes
    tight = [(bytes.fromhex("6001600055"), range(1, 112), 10), (bytes.fromhex("600160005500"), range(1, 112), 10),
             (bytes.fromhex("3656"), range(1, 14), 10), (bytes.fromhex("365600"), range(1, 14), 10),
             (bytes.fromhex("5b600056"), range(1, 130), 3), (bytes.fromhex("5b60005600"), range(1, 130), 3),
             (bytes.fromhex("60016000553660105760026001555b6003600255"), range(90, 340, 3), 10),
             (bytes.fromhex("365f5f375f5f20"), range(1, 60), 10), (bytes.fromhex("5f5f5f5f5f5ff1"), range(1, 125, 2), 10)]
    for code, glims, it in (tight if ctx.quick else tight + [(c + b"\x5b", g, i) for c, g, i in tight]):
        for g in glims:
            progs.setdefault((code, (g, it, 50, 250, 394)), "tight-gas")
    for code in gen.trampoline_programs(rng, 150 if ctx.quick else 3000):
        progs.setdefault((code, (30000000, 10, 50, 250, 394)), "shared-trampoline")
    keys = list(progs.keys())
    if ctx.replay_in:
        r = json.load(open(ctx.replay_in))["replay"]
        keys = [(bytes.fromhex(r["code"]), tuple(r["limits"]))]
    if hb:
        outs = {}
        for mode in (0, 1):
            lines = [gen.vm_line(c, lim + (mode,)) for c, lim in keys]
            ok, out, diag = vlib.run_harness_sharded(hb, ["vm"], lines)
            ctx.oblige("harness:vm:%s" % ("permissive" if mode else "strict"), "correspondence", ok, diag)
            outs["vm%d" % mode] = out
            alines = [l + " all sorted" for l in lines]
            ok, out, diag = vlib.run_harness_sharded(hb, ["analyze"], alines)
            ctx.oblige("harness:analyze:%s" % ("permissive" if mode else "strict"), "search", ok, diag)
            outs["an%d" % mode] = out
        terms = []
        for i, (c, lim) in enumerate(keys):
            parts = [outs["vm0"][i], outs["vm1"][i], outs["an0"][i], outs["an1"][i]]
            if "CHILD-DIED" in parts:
                ctx.violate("C17:child-died:%s" % c.hex()[:48], "harness child died on %s" % c.hex()[:100], {"code": c.hex(), "limits": list(lim)})
                parts = [p if p != "CHILD-DIED" else ('XPanic "child died"' if k < 2 else 'XA 2 [] [] 0 "" "child died"') for k, p in enumerate(parts)]
            terms.append("mk_c17case %s (mk_limits %d %d %d %d %d 100 None) (%s) (%s) (%s) (%s)" %
                         (vlib.coq_bytes(c), lim[0], lim[1], lim[2], lim[3], lim[4], parts[0], parts[1], parts[2], parts[3]))
        header = ("From Coq Require Import String.\nFrom SLX Require Import Base gen.ValueSig SymVal VM AbiT VmCases SimCases.\n"
                  "Open Scope string_scope. Open Scope N_scope.\n")
        bad = vlib.run_cases(ctx, "strict-permissive", header, terms, per_shard=min(100, max(1, len(terms) // 32 + 1)), fn="check_c17r3")
        decided = vlib.run_cases(ctx, "reference-decided", header, terms, per_shard=min(100, max(1, len(terms) // 32 + 1)), fn="c17_ref_decided_lf")
        disagreements = []
        for idx, code in bad:
            c, lim = keys[idx]
            if code >= 30:
                ctx.violate("C17:%d:%s" % (code, c.hex()[:48]), "%s: program %s limits %s" % (CODES.get(code), c.hex()[:120], lim),
                            {"code": c.hex(), "limits": list(lim), "meaning": CODES.get(code),
                             "how": "echo '<code> <gas> <iter> <fork> <size> <mem> <0|1> 100 -1' | build/harness-target/debug/slxh vm   (and ... analyze)"})
            else:
                disagreements.append("%s %s: model/implementation differ (code %s)" % (c.hex()[:100], lim, code))
        ctx.oblige("correspondence:vm-both-modes", "correspondence", not disagreements, "\n".join(disagreements[:10]))
        strict_err = collections.Counter()
        for l in outs["vm0"]:
            strict_err["strict-ok" if l.startswith("XRun true") else "strict-errors" if l.startswith("XRun false") else l[:12]] += 1
        perm_err = collections.Counter("perm-ok" if l.startswith("XRun true") else "perm-errors" if l.startswith("XRun false") else l[:12] for l in outs["vm1"])
        nontrivial = len([1 for a, b in zip(outs["vm0"], outs["vm1"]) if a.startswith("XRun false") and a.split(" [")[1] != b.split(" [")[1]])
        ctx.coverage.update({"evaluations": len(keys), "distinct_nontrivial": nontrivial,
                             "reference_decided_bad_jump_reachable": len([1 for _, v in decided if v == 2]),
                             "reference_decided_no_bad_jump": len([1 for _, v in decided if v == 1]),
                             "traces_validated_against_impl": 2 * len(terms),
                             "input_classes": dict(collections.Counter(progs.values())),
                             "outcomes": {**dict(strict_err), **dict(perm_err)},
                             "analysis_classes_strict": dict(collections.Counter(l.split(" ")[1] if l.startswith("XA") else l[:10] for l in outs["an0"])),
                             "analysis_classes_permissive": dict(collections.Counter(l.split(" ")[1] if l.startswith("XA") else l[:10] for l in outs["an1"]))})
    # the composed model of the whole analysis in both modes: end-to-end theorems + correspondence + the C17 predicates on
    # the implementation's own pair of results
    import p_pipeline
    p_pipeline.suite(ctx, translate=False, codes={15, 16}, cov_key="whole_pipeline_model",
                     only=r"^(pipeline_strict_success|pipeline_permissive_errors|pipeline_glue|pipeline_rule_order)", focus="modes")
    return vlib.finish(ctx, rule="distinct (program, limits) pairs run in both modes; non-trivial = strict mode fails AND the two modes' "
                       "error lists differ (i.e. the flag mattered)", samples=[gen.vm_line(c, lim + (0,)) for c, lim in keys[:3]])
