"""C01 -- analysis is total: it returns a layout or a structured error, never crashes."""
import collections
import json

import gen
import layoutlib as L
import vlib

MANIFEST = {
    "text": "Stage-wise Coq theorems (disassembly incl. the library's own re-encoding assertion never panics on any non-empty byte "
            "string; the 21 constant-folding operators never panic on any 256-bit operands; recorded sizes of limited values cannot "
            "wrap; the gas counter stays below the limit; VectorMap/DisjointSet never panic or run out of fuel; "
            "the three packing passes never panic on any tree the VM can produce (packing_no_panic, get_region_no_panic); all 16 inference "
            "rules and TypeChecker::infer never panic or fail on registered values (rules_no_panic_*, infer_no_panic); abi_type_for and the "
            "layout loop terminate and never panic on closed class tables (abi_terminates, abi_no_panic; refuted for the pinned arithmetic) "
            "-- these stage models are tied to the real passes / rules / unify by per-run correspondence) plus, on every run, the "
            "inventory of ALL panic-capable sites in the MIR of the library as it is now (overflow/divide asserts, bounds checks, "
            "unwrap/expect/panic/assert_failed, Index::index): every function with such sites must be registered and classified "
            "(modelled by a development / unreachable / outside the analysis path); a new site is a broken obligation. The composition "
            "over the whole pipeline is decided by a hostile-input search: boundary constants as offsets, sizes, shifts, jump targets, "
            "slot arithmetic and projections, truncated PUSHes, value/SLOAD towers, mutated real contracts, every stage prefix, both "
            "error modes, tiny limits, in the dev profile (debug assertions, overflow checks) and in the release profile (thorough "
            "tier), each run in a child process so that aborts and stack overflows are observed. "
            "On the composed model of the whole analysis the composition is also a theorem (props/C01_pipeline.v, pipeline_no_panic): "
            "for every byte string, every configuration with a polling interval >= 1, every keccak function, slot table, iteration "
            "order and fuel, Pipeline.analyze_model never returns a panic; it rests on one invariant per stage boundary "
            "(vm_values_wellformed, lifted_spans_bounded, registered_state_closed, merge_keeps_span_bound / "
            "unify_preserves_span_bound: every span offset + size and every word width stays <= usize::MAX and every type variable "
            "below the counter, so the only panic site of unify is unreachable; final_state_closed for abi_no_panic). A polling "
            "interval of 0 is refuted (pipeline_poll_zero_panics). The search remains the tie between that model and the library.",
    "note": "Native stack exhaustion (recursion depth of find/transform) and allocator failure cannot be exhibited by the model: "
            "partial. Trusted: Coq kernel; MIR dump of rustc (RUSTC_BOOTSTRAP=1 -Zunpretty=mir) and its regex parser; harness.",
    "technique": "Coq stage theorems + MIR panic-site inventory checked against a committed registry + hostile differential search in "
                 "child processes (dev and release profiles)",
}


def check(ctx):
    vlib.translate(ctx)
    vlib.prove(ctx, "props/C01.v")
    vlib.prove(ctx, "props/C01_pipeline.v")
    rng = ctx.rng
    bw = gen.boundary_words()
    progs = []
    try:
        for l in open(vlib.ROOT + "/corpus/C01.txt"):
            l = l.split("#")[0].strip()
            if l:
                progs.append(bytes.fromhex(l.split()[0]))
    except FileNotFoundError:
        pass
    n = 2500 if ctx.quick else 40000
    progs += gen.hostile_programs(rng, bw, n)
    stage = vlib.stage_replay(ctx)
    if ctx.replay_in and not stage:
        progs = [bytes.fromhex(json.load(open(ctx.replay_in))["replay"]["code"])]
    stages = ["all", "all", "all", "disasm", "vm", "lift", "assign", "infer"]
    lines = []
    for c in progs:
        cfg = (rng.choice([300, 5000, 30000000]), rng.randrange(1, 13), rng.randrange(1, 61), rng.choice([1, 2, 5, 250, 1000]),
               rng.choice([0, 31, 394, 100000]), rng.randrange(2))
        lines.append(gen.vm_line(c, cfg, poll_every=rng.choice([1, 100])) + " " + rng.choice(stages))
    outcome = collections.Counter()
    profiles = [] if stage else ([False] if ctx.quick else [False, True])
    for release in profiles:
        hb = vlib.harness_bin(ctx, release=release)
        if not hb:
            continue
        ok, out, diag = vlib.run_harness_sharded(hb, ["analyze"], lines, timeout=2400)
        ctx.oblige("harness:analyze:%s" % ("release" if release else "dev"), "search", True, diag)
        for line, l in zip(lines, out):
            cls = l.split(" ")[1] if l.startswith("XA ") else "died"
            outcome[("release:" if release else "dev:") + cls] += 1
            code = line.split(" ")[0]
            if cls == "2" or cls == "died":
                ctx.violate("C01:panic:%s" % code[:48], "panic / abort (%s profile) on %s -> %s" % ("release" if release else "dev", line[:200], l[-200:]),
                            {"code": code, "line": line, "observed": l[-400:], "profile": "release" if release else "dev",
                             "how": "echo '<line>' | build/harness-target/<debug|release>/slxh analyze"})
            elif cls == "3":
                ctx.violate("C01:no-halt:%s" % code[:48], "poll budget exceeded on %s" % line[:200], {"code": code, "line": line})
    try:
        sites = json.load(open(vlib.BUILD + "/panic_sites.json"))["totals"]
    except Exception:
        sites = {}
    ctx.coverage.update({"evaluations": len(lines) * len(profiles), "distinct_nontrivial": len(set(progs)),
                         "outcome_classes": dict(outcome), "panic_sites_by_status_and_kind": sites})
    import p_tc_stages as TS
    TS.suite(ctx, translate=False, parts=("rules", "rules-single", "abi"),
             codes={"register": {12}, "rules": {12, 25}, "abi": {20, 25}, "classes": {79}}, cov_key="tc_stages",
             only=r"^(rules_total|rules_no_panic|infer_no_panic|abi_terminates|abi_no_panic|default_rules_are)")
    import p_passes_packing
    p_passes_packing.suite(ctx, translate=False, codes={11}, cov_key="lifting_passes_packing", only=r"^(packing_no_panic|shift_of_non_subword|packed_encoding_panics|sub_word_pinned_panics|packed_encoding_pinned_panics|get_region_no_panic)")
    return vlib.finish(ctx, rule="hostile programs x random small/large limits x error mode x stage prefix; distinct = distinct byte "
                       "strings; every one is non-trivial (attacker-style input)", samples=[l[:160] for l in lines[:3]])
