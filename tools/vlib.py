"""Shared machinery for the per-property checks (see DESIGN.md section 2.5 / 6).

Every check follows the same decision rule:
  1. translate /repo -> coq/gen/*.v            (obligation: translation)
  2. make props/Cxx.vo under a shell timeout  (obligation: each theorem, assumptions allow-list,
                                               forbidden-construct grep)
  3. build the harness from /repo's working tree (hooks on)
  4. correspondence suites: the harness runs the implementation and prints its results as Coq
     terms into cases files; one coqc per shard evaluates the model on the same inputs, compares,
     and evaluates the property predicate itself on the implementation's results
  5. evidence/Cxx.json, KNOWN-FINDING / VIOLATION lines, exit status
"""
import hashlib
import json
import os
import random
import re
import shutil
import subprocess
import sys
import time
from concurrent.futures import ThreadPoolExecutor

ROOT = os.path.dirname(os.path.dirname(os.path.abspath(__file__)))
REPO = os.environ.get("VERIF_REPO", "/repo")
BUILD = os.path.join(ROOT, "build")
COQ = os.path.join(ROOT, "coq")
EVID = os.path.join(ROOT, "evidence")
REPLAY = os.path.join(ROOT, "replays")
GUARD = "smlxl_storage_layout_extractor_verif"
NCPU = 16

ALLOWED_AXIOMS = set()  # the goal: every property theorem is closed under the global context

FORBIDDEN = re.compile(
    r"\b(Admitted|admit|Axiom|Axioms|Parameter|Parameters|Conjecture|Conjectures|Admit Obligations|"
    r"Unset Guard Checking|Unset Positivity Checking|Unset Universe Checking|bypass_check|"
    r"type-in-type|impredicative-set|native_compute)\b")


def sh(cmd, timeout=600, cwd=None, env=None, input=None):
    """Run a command under a timeout; returns (rc, stdout+stderr). rc 124 on timeout."""
    e = dict(os.environ)
    e["CARGO_NET_OFFLINE"] = "true"
    if env:
        e.update(env)
    try:
        p = subprocess.run(cmd, shell=isinstance(cmd, str), cwd=cwd, env=e, input=input,
                           stdout=subprocess.PIPE, stderr=subprocess.STDOUT, text=True,
                           timeout=timeout)
        return p.returncode, p.stdout
    except subprocess.TimeoutExpired as ex:
        out = ex.stdout or ""
        if isinstance(out, bytes):
            out = out.decode("utf8", "replace")
        return 124, out + "\n[timeout after %ss]" % timeout


def write_if_changed(path, content):
    os.makedirs(os.path.dirname(path), exist_ok=True)
    try:
        with open(path) as f:
            if f.read() == content:
                return False
    except FileNotFoundError:
        pass
    with open(path, "w") as f:
        f.write(content)
    return True


class Obligation:
    def __init__(self, name, kind, ok, detail=""):
        self.name, self.kind, self.ok, self.detail = name, kind, ok, detail

    def as_json(self):
        return {"name": self.name, "kind": self.kind, "discharged": bool(self.ok),
                "detail": self.detail[-2000:] if not self.ok else self.detail[:300]}


class Violation:
    """A concrete input/history on which the implementation violates the property."""

    def __init__(self, key, what, replay):
        self.key, self.what, self.replay = key, what, replay


class Ctx:
    def __init__(self, prop, tier, seed, replay=None):
        self.prop, self.tier, self.seed, self.replay_in = prop, tier, seed, replay
        self.t0 = time.time()
        self.obligations = []
        self.violations = []
        self.coverage = {}
        self.assumptions = []
        self.trusted = []
        self.rng = random.Random(seed)
        self.log_lines = []
        self.axioms_seen = {}
        os.makedirs(BUILD, exist_ok=True)

    def log(self, *a):
        s = " ".join(str(x) for x in a)
        self.log_lines.append(s)
        print("[%s %6.1fs] %s" % (self.prop, time.time() - self.t0, s), flush=True)

    def oblige(self, name, kind, ok, detail=""):
        self.obligations.append(Obligation(name, kind, ok, detail))
        if not ok:
            self.log("OBLIGATION BROKEN: %s (%s): %s" % (name, kind, detail[-600:]))

    def violate(self, key, what, replay):
        self.violations.append(Violation(key, what, replay))

    @property
    def quick(self):
        return self.tier == "quick"


# --------------------------------------------------------------------------------------
# step 1: translation

def translate(ctx):
    sys.path.insert(0, os.path.join(ROOT, "tools"))
    import translate as T
    try:
        results = T.run(REPO, os.path.join(COQ, "gen"), ctx.prop)
    except Exception as ex:  # a translator crash is a broken translation obligation
        ctx.oblige("translate", "translation", False, "translator raised %r" % (ex,))
        return False
    ok = True
    for name, good, detail in results:
        ctx.oblige("translate:" + name, "translation", good, detail)
        ok = ok and good
    return ok


# --------------------------------------------------------------------------------------
# step 2: proofs

def coq_project():
    """_CoqProject lists every .v file under coq/ (coqdep orders them)."""
    files = []
    for d, _, fs in os.walk(COQ):
        for f in fs:
            if f.endswith(".v") and not f.startswith("."):
                files.append(os.path.relpath(os.path.join(d, f), COQ))
    body = "-Q . SLX\n-arg -w -arg -notation-overridden,-deprecated-hint-without-locality,-deprecated-instance-without-locality\n"
    body += "\n".join(sorted(files)) + "\n"
    write_if_changed(os.path.join(COQ, "_CoqProject"), body)


def coq_makefile():
    coq_project()
    mk = os.path.join(COQ, "Makefile.coq")
    cp = os.path.join(COQ, "_CoqProject")
    if not os.path.exists(mk) or os.path.getmtime(mk) < os.path.getmtime(cp):
        rc, out = sh("coq_makefile -f _CoqProject -o Makefile.coq", cwd=COQ, timeout=120)
        if rc != 0:
            raise RuntimeError("coq_makefile failed: " + out)


def coq_make(targets, timeout=1500):
    coq_makefile()
    return sh("make -f Makefile.coq -j%d %s" % (NCPU, " ".join(targets)), cwd=COQ, timeout=timeout)


def theorem_names(vfile):
    src = open(vfile).read()
    src = re.sub(r"\(\*.*?\*\)", "", src, flags=re.S)
    return re.findall(r"^\s*Theorem\s+([A-Za-z0-9_']+)", src, flags=re.M)


def forbidden_scan():
    hits = []
    for d, _, fs in os.walk(COQ):
        for f in fs:
            if not f.endswith(".v"):
                continue
            p = os.path.join(d, f)
            src = open(p).read()
            src_nc = re.sub(r"\(\*.*?\*\)", lambda m: " " * len(m.group(0)), src, flags=re.S)
            for m in FORBIDDEN.finditer(src_nc):
                line = src_nc.count("\n", 0, m.start()) + 1
                hits.append("%s:%d:%s" % (os.path.relpath(p, ROOT), line, m.group(0)))
    return hits


def prove(ctx, propfile_rel, extra_targets=(), only=None):
    """Build props/Cxx.vo, then ask Coq for the assumptions of each theorem in it (`only`: a regex selecting
    the theorems of a shared props file that belong to the property being checked)."""
    vfile = os.path.join(COQ, propfile_rel)
    target = propfile_rel[:-2] + ".vo"
    rc, out = coq_make([target] + list(extra_targets))
    names = theorem_names(vfile)
    if only:
        names = [n for n in names if re.search(only, n)]
    if rc != 0:
        # find which file failed, to name the broken theorem as closely as possible
        m = re.findall(r'File "([^"]+)", line (\d+)', out)
        where = "; ".join("%s:%s" % x for x in m[-3:])
        ctx.oblige("build:" + target, "proof", False, where + "\n" + out[-1500:])
        for n in names:
            ctx.oblige("theorem:" + n, "proof", False, "development does not build")
        # the model-level targets (case evaluators) do not depend on the proofs: build them on their own so that the search
        # for a failing input still runs
        if extra_targets:
            rc2, out2 = coq_make(list(extra_targets))
            ctx.oblige("build:model-level targets after a proof failure", "build", rc2 == 0, out2[-800:])
        return False
    ctx.oblige("build:" + target, "proof", True)
    hits = forbidden_scan()
    ctx.oblige("no-admitted-axiom-or-disabled-check", "proof", not hits, "\n".join(hits))
    # assumptions, always fresh (the .vo may be cached)
    mod = "SLX." + propfile_rel[:-2].replace("/", ".")
    q = "From Coq Require Import String.\nRequire Import %s.\n" % mod
    for n in names:
        q += 'Print Assumptions %s.\nCheck "%s"%%string.\n' % (n, "END-" + n)
    qd = os.path.join(BUILD, "assume")
    os.makedirs(qd, exist_ok=True)
    qf = os.path.join(qd, "Assume_%s_%s.v" % (ctx.prop, os.path.basename(propfile_rel)[:-2]))
    open(qf, "w").write(q)
    rc, out = sh("coqc -noglob -Q %s SLX %s" % (COQ, qf), timeout=300)
    if rc != 0:
        ctx.oblige("assumptions", "proof", False, out[-1500:])
        return False
    pos = 0
    allok = True
    for n in names:
        end = out.find('"END-%s"' % n, pos)
        chunk = out[pos:end]
        pos = end
        closed = "Closed under the global context" in chunk
        axs = []
        if not closed:
            axs = re.findall(r"^([A-Za-z0-9_.']+)\s*:", chunk, flags=re.M)
        bad = [a for a in axs if a not in ALLOWED_AXIOMS]
        ctx.axioms_seen[n] = axs
        ok = closed or (axs and not bad)
        ctx.oblige("theorem:" + n, "proof", ok,
                   "closed under the global context" if closed else "assumptions: " + chunk[-500:])
        allok = allok and ok
    return allok


# --------------------------------------------------------------------------------------
# step 3: harness

def harness_bin(ctx, release=False):
    hdir = os.path.join(ROOT, "harness")
    write_if_changed(os.path.join(hdir, "Cargo.toml"),
                     open(os.path.join(hdir, "Cargo.toml.in")).read().replace("@REPO@", REPO))
    lock = os.path.join(hdir, "Cargo.lock")
    if not os.path.exists(lock):
        shutil.copy(os.path.join(REPO, "Cargo.lock"), lock)
    tgt = os.path.join(BUILD, "harness-target")
    env = {"CARGO_TARGET_DIR": tgt, "RUSTFLAGS": "--cfg " + GUARD}
    cmd = "cargo build --offline" + (" --release" if release else "")
    rc, out = sh(cmd, cwd=hdir, env=env, timeout=1500)
    if rc != 0 and "lock file" in out:
        shutil.copy(os.path.join(REPO, "Cargo.lock"), lock)
        rc, out = sh(cmd, cwd=hdir, env=env, timeout=1500)
    ctx.oblige("build:harness" + ("-release" if release else ""), "build", rc == 0, out[-2500:])
    if rc != 0:
        return None
    return os.path.join(tgt, "release" if release else "debug", "slxh")


def run_harness(binpath, args, input_text, timeout=900):
    """Runs the harness in a child process; a crash/abort of the child is observable as rc != 0."""
    p = subprocess.run([binpath] + args, input=input_text, stdout=subprocess.PIPE,
                       stderr=subprocess.PIPE, text=True, timeout=timeout)
    return p.returncode, p.stdout, p.stderr


def _stream_chunk(binpath, args, chunk, per_line, deadline, max_restarts=40):
    """One shard: feeds `chunk` to a child and reads one line per input with a deadline per line.  A line that does not
    arrive in `per_line` seconds (hang inside a non-polling loop) or on which the child dies (abort, stack overflow) is
    reported as CHILD-DIED; the child is restarted on the remaining lines, so the other results are kept."""
    import queue
    import threading
    res = [None] * len(chunk)
    pos = 0
    died = []
    restarts = 0
    while pos < len(chunk):
        if time.time() > deadline or restarts > max_restarts:
            break
        env = dict(os.environ)
        p = subprocess.Popen([binpath] + list(args), stdin=subprocess.PIPE, stdout=subprocess.PIPE, stderr=subprocess.DEVNULL,
                             text=True, env=env)
        batch = chunk[pos:]

        def feed(proc=p, data="\n".join(batch) + "\n"):
            try:
                proc.stdin.write(data)
                proc.stdin.close()
            except Exception:
                pass
        threading.Thread(target=feed, daemon=True).start()
        q = queue.Queue()

        def pump(proc=p, qq=q):
            try:
                for l in proc.stdout:
                    qq.put(l.rstrip("\n"))
            except Exception:
                pass
            qq.put(None)
        threading.Thread(target=pump, daemon=True).start()
        got = 0
        while got < len(batch):
            try:
                l = q.get(timeout=per_line)
            except queue.Empty:
                l = None
            if l is None:
                break
            res[pos + got] = l
            got += 1
        try:
            p.kill()
            p.wait(timeout=10)
        except Exception:
            pass
        if got < len(batch):
            res[pos + got] = "CHILD-DIED"
            died.append(pos + got)
            pos += got + 1
            restarts += 1
        else:
            pos += got
    return res, died


def run_harness_sharded(binpath, args, lines, shards=NCPU, timeout=900, per_line=240):
    """Runs the harness over `lines` split into contiguous shards in parallel child processes, one flushed output line
    per input.  Returns (ok, output_lines, diagnostics).  An input on which the child dies (abort, stack overflow) or
    does not answer within `per_line` seconds is reported as "CHILD-DIED" and makes ok False; the child is restarted
    behind it, so one bad input does not lose the shard."""
    if not lines:
        return True, [], ""
    n = max(1, min(shards, len(lines)))
    size = (len(lines) + n - 1) // n
    chunks = [lines[i:i + size] for i in range(0, len(lines), size)]
    deadline = time.time() + timeout

    def one(chunk):
        return _stream_chunk(binpath, args, chunk, per_line, deadline)

    out, ok, diag = [], True, []
    with ThreadPoolExecutor(n) as ex:
        for k, (chunk, (ls, died)) in enumerate(zip(chunks, ex.map(one, chunks))):
            missing = [i for i, l in enumerate(ls) if l is None]
            if died or missing:
                ok = False
                diag.append("shard %d: %d input(s) killed the child or hung (> %ds), %d not run; first: %s"
                            % (k, len(died), per_line, len(missing), (chunk[died[0]] if died else chunk[missing[0]])[:160]))
            out.extend(l if l is not None else "CHILD-DIED" for l in ls)
    return ok, out, "\n".join(diag)


# --------------------------------------------------------------------------------------
# step 4: evaluating the model inside Coq on the cases the implementation ran

def run_cases(ctx, name, header, case_terms, per_shard=400, timeout=900, fn="check_case"):
    """case_terms: list of Coq terms of the suite's case type. Evaluates `fn` on every case,
    sharded over coqc processes. `fn : case -> N` returns 0 when the case agrees / holds and a
    non-zero code otherwise. Returns list of (index, code). A shard that fails to compile is a
    broken correspondence obligation."""
    d = os.path.join(BUILD, "cases", ctx.prop, name)
    shutil.rmtree(d, ignore_errors=True)
    os.makedirs(d)
    shards = [case_terms[i:i + per_shard] for i in range(0, len(case_terms), per_shard)]
    files = []
    for k, sh_cases in enumerate(shards):
        body = header + "\nDefinition cases := [\n" + ";\n".join(sh_cases) + "\n].\n"
        body += ("Definition res := Eval vm_compute in "
                 "(map (fun c => %s c) cases).\n" % fn)
        body += "Definition bad := Eval vm_compute in (filter (fun p => negb (N.eqb (snd p) 0)) " \
                "(combine (map N.of_nat (seq 0 (length res))) res)).\n"
        body += 'Check "BEGIN-BAD"%string.\nPrint bad.\nCheck "END-BAD"%string.\n'
        f = os.path.join(d, "cases_%d.v" % k)
        open(f, "w").write(body)
        files.append(f)

    def one(f):
        return sh("coqc -noglob -Q %s SLX %s" % (COQ, f), timeout=timeout)

    bad = []
    broken = []

    def absorb(k, rc, out):
        if rc != 0:
            return "shard %d: %s" % (k, out[-800:])
        m = re.search(r'"BEGIN-BAD".*?bad\s*=\s*(.*?):\s*list \(N \* N\)', out, flags=re.S)
        if not m:
            return "shard %d: unparsable output %s" % (k, out[-400:])
        for a, b in re.findall(r"\(\s*(\d+)(?:%N)?\s*,\s*(\d+)(?:%N)?\s*\)", m.group(1)):
            bad.append((k * per_shard + int(a), int(b)))
        return None

    retry = []
    with ThreadPoolExecutor(NCPU) as ex:
        for k, (rc, out) in enumerate(ex.map(one, files)):
            err = absorb(k, rc, out)
            if err:
                retry.append(k)
    # a shard that was killed or timed out is split: its cases are re-evaluated in smaller and smaller pieces (in parallel),
    # so that one slow case costs one timeout and is NAMED, instead of taking its whole shard down
    def write_piece(k, lo, hi, tag):
        body = header + "\nDefinition cases := [\n" + ";\n".join(shards[k][lo:hi]) + "\n].\n"
        body += ("Definition res := Eval vm_compute in (map (fun c => %s c) cases).\n" % fn)
        body += "Definition bad := Eval vm_compute in (filter (fun p => negb (N.eqb (snd p) 0)) " \
                "(combine (map N.of_nat (seq 0 (length res))) res)).\n"
        body += 'Check "BEGIN-BAD"%string.\nPrint bad.\nCheck "END-BAD"%string.\n'
        f = os.path.join(d, "cases_%d_%s.v" % (k, tag))
        open(f, "w").write(body)
        return f

    pieces = [(k, 0, len(shards[k])) for k in retry]
    rounds = 0
    while pieces and rounds < 8:
        rounds += 1
        nxt = []
        split = []
        for (k, lo, hi) in pieces:
            n = hi - lo
            if n <= 1 or rounds == 1 and n <= 4:
                split.append((k, lo, hi))
            else:
                step = max(1, (n + 3) // 4)
                split += [(k, x, min(hi, x + step)) for x in range(lo, hi, step)]
        fs = [write_piece(k, lo, hi, "%d_%d" % (lo, hi)) for (k, lo, hi) in split]
        with ThreadPoolExecutor(NCPU) as ex:
            for (k, lo, hi), (rc, out) in zip(split, ex.map(one, fs)):
                m = re.search(r'"BEGIN-BAD".*?bad\s*=\s*(.*?):\s*list \(N \* N\)', out, flags=re.S) if rc == 0 else None
                if m:
                    for a_, b_ in re.findall(r"\(\s*(\d+)(?:%N)?\s*,\s*(\d+)(?:%N)?\s*\)", m.group(1)):
                        bad.append((k * per_shard + lo + int(a_), int(b_)))
                elif hi - lo <= 1:
                    broken.append("case %d (shard %d): %s" % (k * per_shard + lo, k, out[-300:]))
                else:
                    nxt.append((k, lo, hi))
        pieces = nxt
    for (k, lo, hi) in pieces:
        broken.append("cases %d..%d (shard %d) could not be evaluated" % (k * per_shard + lo, k * per_shard + hi, k))
    ctx.oblige("cases-evaluate:" + name, "correspondence", not broken, "\n".join(broken)[:2000])
    return bad


def coq_list(items):
    return "[" + "; ".join(items) + "]"


def coq_bytes(bs):
    return "[" + ";".join(str(b) for b in bs) + "]"


# --------------------------------------------------------------------------------------
# step 5: verdict

def known_findings():
    p = os.path.join(ROOT, "known_findings.json")
    if not os.path.exists(p):
        return []
    return json.load(open(p)).get("known", [])


def stage_replay(ctx):
    """Which suite wrote the file named by --replay: "slots" / "packing" for a case of a lifting-pass suite, None for
    an end-to-end case of the property's own check (or no replay)."""
    if not ctx.replay_in:
        return None
    try:
        rp = json.load(open(ctx.replay_in)).get("replay") or {}
    except Exception:
        return None
    if "tree" in rp and "pass" in rp:
        return "slots"
    if "input" in rp and "pass" in rp:
        return "packing"
    return rp.get("suite")


def finish(ctx, level="proof", checker_cmd=None, rule="", samples=None, extra=None):
    known = [k for k in known_findings() if k["property"] == ctx.prop]
    os.makedirs(EVID, exist_ok=True)
    os.makedirs(REPLAY, exist_ok=True)
    unknown = []
    known_hit = {}
    for v in ctx.violations:
        hit = None
        for k in known:
            if v.key == k.get("key") or (k.get("key_regex") and re.fullmatch(k["key_regex"], v.key)):
                hit = k
                break
        if hit:
            known_hit.setdefault(hit["id"], (hit, v))
        else:
            unknown.append(v)
    for kid, (k, v) in sorted(known_hit.items()):
        print("KNOWN-FINDING: property=%s %s (%s; witness %s)" % (ctx.prop, k["what"], kid, v.what[:200]))
    broken = [o for o in ctx.obligations if not o.ok]
    rc = 0
    lines = []
    if unknown:
        seen = set()
        for i, v in enumerate(unknown[:5]):
            if v.key in seen:
                continue
            seen.add(v.key)
            path = os.path.join(REPLAY, "%s_%s_%d.json" % (ctx.prop, ctx.tier, i))
            json.dump({"property": ctx.prop, "kind": "failing-input", "key": v.key, "what": v.what,
                       "replay": v.replay, "seed": ctx.seed,
                       "broken_obligations": [o.as_json() for o in broken]}, open(path, "w"), indent=1)
            lines.append("VIOLATION property=%s replay=%s" % (ctx.prop, path))
        rc = 1
    elif broken:
        path = os.path.join(REPLAY, "%s_%s_obligation.json" % (ctx.prop, ctx.tier))
        json.dump({"property": ctx.prop, "kind": "obligation-no-longer-checks",
                   "note": "the property is no longer shown to hold; no failing input was found by the search",
                   "broken_obligations": [o.as_json() for o in broken], "seed": ctx.seed},
                  open(path, "w"), indent=1)
        lines.append("VIOLATION property=%s replay=%s no-failing-input-found" % (ctx.prop, path))
        rc = 1
    cov = dict(ctx.coverage)
    cov.setdefault("obligations", len(ctx.obligations))
    cov.setdefault("discharged", len([o for o in ctx.obligations if o.ok]))
    cov.setdefault("checker_cmd", checker_cmd or
                   "make -f Makefile.coq props/%s.vo (coqc 8.16.1, full .vo build) + coqc Print Assumptions" % ctx.prop)
    cov.setdefault("trusted_base", TRUSTED_BASE + ctx.trusted)
    cov.setdefault("rule", rule)
    cov.setdefault("samples", samples or [])
    cov["obligation_list"] = [o.as_json() for o in ctx.obligations]
    cov["axioms_reported"] = ctx.axioms_seen
    cov["known_findings_replayed"] = sorted(known_hit.keys())
    if extra:
        cov.update(extra)
    ev = {"property_id": ctx.prop, "tier": ctx.tier, "seed": ctx.seed, "level": level,
          "coverage": cov, "assumptions": ctx.assumptions, "wall_s": round(time.time() - ctx.t0, 2),
          "violations": len(unknown) + (1 if (broken and not unknown) else 0)}
    json.dump(ev, open(os.path.join(EVID, ctx.prop + ".json"), "w"), indent=1)
    for l in lines:
        print(l)
    ctx.log("done: %d obligations, %d broken, %d violations (%d known), rc=%d" %
            (len(ctx.obligations), len(broken), len(ctx.violations), len(ctx.violations) - len(unknown), rc))
    return rc


TRUSTED_BASE = [
    "Coq 8.16.1 kernel (coqc; vm_compute for finite-domain reflection and case evaluation; no native_compute)",
    "tools/translate.py (regex/bracket parsers over Rust source text: tables regenerated on every run)",
    "harness/ (Rust driver printing the implementation's results as Coq terms) and tools/ generators",
    "modelled, not verified: ethnum U256/I256 primitives, std collections/sort, serde/serde_json, sha3, Rc/Arc semantics",
]
