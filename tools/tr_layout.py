"""T7 (layout): the sort key of StorageLayout::add and the shape of add() -> coq/gen/LayoutKey.v"""
import os
import re

from translate import HEADER, norm, read, write_if_changed, match_brace

ADD_BODIES = {
    "let slot=StorageSlot::new(index,offset,typ);self.slots.push(slot);self.slots.sort_by_key(|s|(%s));": "push_then_stable_sort",
}


def step_layout(repo, out, consts):
    problems = []
    src = read(repo, "src/layout.rs")
    m = re.search(r"pub fn add\(&mut self,[^)]*\)\s*\{", src)
    fields = []
    shape = "unknown"
    if not m:
        problems.append("StorageLayout::add not found")
    else:
        e = match_brace(src, m.end() - 1)
        body = norm(src[m.end():e - 1])
        km = re.search(r"sort_by_key\(\|s\|\(?([\w.,]+?)\)?\)", body)
        if not km:
            problems.append("add(): no sort_by_key with a recognisable key: " + body)
        else:
            fields = [f.replace("s.", "") for f in km.group(1).split(",") if f]
            for f in fields:
                if f not in ("index", "offset"):
                    problems.append("add(): unknown key field %s" % f)
            expect = "let slot=StorageSlot::new(index,offset,typ);self.slots.push(slot);self.slots.sort_by_key(|s|%s);" % (
                "(" + km.group(1) + ")" if "," in km.group(1) else km.group(1))
            if body != expect:
                problems.append("add(): body not recognised: " + body)
            else:
                shape = "push_then_stable_sort"
    s = HEADER + "From Coq Require Import List String.\nImport ListNotations.\nOpen Scope string_scope.\n"
    s += "(* the fields of the key `StorageLayout::add` sorts by, in order *)\n"
    s += "Definition layout_key_fields : list string := [" + "; ".join('"%s"' % f for f in fields) + "].\n"
    s += 'Definition layout_add_shape : string := "%s".\n' % shape
    write_if_changed(os.path.join(out, "LayoutKey.v"), s)
    return problems, {"key": fields}


steps = [("T7-layout-sort-key", step_layout)]
