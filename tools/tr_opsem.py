"""T9: reads the `execute` body of every `impl Opcode for X` into a list of micro-operations
(coq/Micro.v) -> coq/gen/OpcodeSem.v.  Bodies that are not straight-line sequences of recognised
statements are listed as irregular; the hand-written model must cover exactly that list."""
import os
import re

from translate import HEADER, match_brace, norm, read, write_if_changed

IRREGULAR_ALLOWED = {"Jump", "JumpI", "CallDataCopy", "CodeCopy", "ExtCodeCopy", "ReturnDataCopy", "LogN"}


def split_statements(body):
    out, depth, cur = [], 0, ""
    for c in body:
        if c in "({[":
            depth += 1
        elif c in ")}]":
            depth -= 1
        if c == ";" and depth == 0:
            out.append(cur)
            cur = ""
        else:
            cur += c
    if cur.strip():
        out.append(cur)
    return [norm(s) for s in out if s.strip()]


def parse_fields(txt):
    """`{f:v,g}` -> [(f, v), (g, g)]"""
    inner = txt.strip("{}")
    res = []
    for part in inner.split(","):
        if not part:
            continue
        if ":" in part:
            f, v = part.split(":", 1)
        else:
            f, v = part, part
        if not re.fullmatch(r"\w+", v):
            return None
        res.append((f, v))
    return res


class Body:
    def __init__(self, sig):
        self.vars = {}
        self.ops = []
        self.sig = sig

    def bind(self, name):
        self.vars[name] = len(self.vars) if name not in self.vars else self.vars[name]
        # rebinding (shadowing) gets a new slot
        return self.vars[name]

    def fresh(self, name):
        idx = max(self.vars.values(), default=-1) + 1
        self.vars[name] = idx
        return idx

    def use(self, name):
        if name not in self.vars:
            raise KeyError(name)
        return self.vars[name]


def parse_body(stmts, sig):
    b = Body(sig)
    STACK = r"(?:stack|vm\.stack_handle\(\)\?)"
    MEM = r"(?:memory|vm\.state\(\)\?\.memory_mut\(\))"
    STO = r"(?:storage|vm\.state\(\)\?\.storage_mut\(\))"
    for s in stmts:
        if s in ("let instruction_pointer=vm.instruction_pointer()?", "let mut stack=vm.stack_handle()?",
                 "let memory=vm.state()?.memory_mut()", "let storage=vm.state()?.storage_mut()", "Ok(())",
                 "let value_size_limit=vm.config().value_size_limit"):
            continue
        m = re.fullmatch(r"let (\w+)=%s\.pop\(\)\?(\.constant_fold\(\))?" % STACK, s)
        if m:
            b.ops.append("MPop %d %s" % (b.fresh(m.group(1)), "true" if m.group(2) else "false"))
            continue
        m = re.fullmatch(r"let (\w+)=vm\.build\(\)\.symbolic_exec\(instruction_pointer,RSVD::call_data\((\w+),(\w+)\)\)", s)
        if m:
            a, c = b.use(m.group(2)), b.use(m.group(3))
            b.ops.append("MCallData %d %d %d" % (b.fresh(m.group(1)), a, c))
            continue
        m = re.fullmatch(r"let (\w+)=vm\.build\(\)\.symbolic_exec\(instruction_pointer,RSVD::(\w+)(\{.*\})?\)", s)
        if m:
            tag = m.group(2)
            if tag not in sig:
                return None, "unknown constructor %s" % tag
            fields = parse_fields(m.group(3)) if m.group(3) else []
            if fields is None:
                return None, "unrecognised field list in: " + s
            declared = [(fn, k) for fn, k in sig[tag]]
            if any(k != "FChild" for _, k in declared):
                return None, "constructor %s has non-plain fields" % tag
            given = dict(fields)
            if sorted(given) != sorted(fn for fn, _ in declared) or len(given) != len(fields):
                return None, "fields of %s do not match its declaration: %s" % (tag, s)
            args = [b.use(given[fn]) for fn, _ in declared]
            b.ops.append("MBuild %d T_%s [%s]" % (b.fresh(m.group(1)), tag, "; ".join(map(str, args))))
            continue
        m = re.fullmatch(r"let (\w+)=vm\.build\(\)\.known\(instruction_pointer,KnownWord::from_le\((0x[0-9a-fA-F]+|\d+)u8\),Provenance::\w+\)", s)
        if m:
            b.ops.append("MConst %d %d" % (b.fresh(m.group(1)), int(m.group(2), 0)))
            continue
        m = re.fullmatch(r"let (\w+)=vm\.build\(\)\.known_exec\(instruction_pointer,KnownWord::from\((\d+)\)\)", s)
        if m:
            b.ops.append("MConst %d %d" % (b.fresh(m.group(1)), int(m.group(2))))
            continue
        m = re.fullmatch(r"let (\w+)=vm\.build\(\)\.symbolic\(instruction_pointer,RSVD::new_known\(KnownWord::zero\(\)\),Provenance::\w+\)", s)
        if m:
            b.ops.append("MConst %d 0" % b.fresh(m.group(1)))
            continue
        m = re.fullmatch(r"let (\w+)=vm\.build\(\)\.known\(instruction_pointer,KnownWord::from_le\(instruction_pointer\),Provenance::\w+\)", s)
        if m:
            b.ops.append("MConstIp %d" % b.fresh(m.group(1)))
            continue
        if s == "let true_code_size=vm.instructions().len()":
            continue
        m = re.fullmatch(r"let (\w+)=vm\.build\(\)\.known_exec\(instruction_pointer,KnownWord::from\(true_code_size\)\)", s)
        if m:
            b.ops.append("MConstCodeSize %d" % b.fresh(m.group(1)))
            continue
        if s == "let item_data=self.bytes_as_word()":
            continue
        m = re.fullmatch(r"let (\w+)=vm\.build\(\)\.symbolic\(instruction_pointer,RSVD::new_known\(item_data\),Provenance::\w+\)", s)
        if m:
            b.ops.append("MConstSelfWord %d" % b.fresh(m.group(1)))
            continue
        m = re.fullmatch(r"let (\w+)=RSV::new_value\(instruction_pointer,Provenance::\w+\)", s)
        if m:
            b.ops.append("MFresh %d" % b.fresh(m.group(1)))
            continue
        m = re.fullmatch(r"%s\.push\((\w+)\)\?" % STACK, s)
        if m:
            b.ops.append("MPush %d" % b.use(m.group(1)))
            continue
        m = re.fullmatch(r"vm\.state\(\)\?\.record_value\((\w+)\)", s)
        if m:
            b.ops.append("MRecord %d" % b.use(m.group(1)))
            continue
        m = re.fullmatch(r"vm\.state\(\)\?\.log_value\((\w+)\)", s)
        if m:
            b.ops.append("MLog %d" % b.use(m.group(1)))
            continue
        if s == "vm.kill_current_thread()":
            b.ops.append("MKill")
            continue
        m = re.fullmatch(r"let (\w+)=%s\.load_slice\(&(\w+),&(\w+),instruction_pointer\)" % MEM, s)
        if m:
            a, c = b.use(m.group(2)), b.use(m.group(3))
            b.ops.append("MLoadSlice %d %d %d" % (b.fresh(m.group(1)), a, c))
            continue
        m = re.fullmatch(r"let (\w+)=%s\.load\(&(\w+)\)" % MEM, s)
        if m:
            a = b.use(m.group(2))
            b.ops.append("MMemLoad %d %d" % (b.fresh(m.group(1)), a))
            continue
        m = re.fullmatch(r"%s\.store(_8)?\((\w+),(\w+)\)" % MEM, s)
        if m:
            b.ops.append("MMemStore%s %d %d" % ("8" if m.group(1) else "", b.use(m.group(2)), b.use(m.group(3))))
            continue
        m = re.fullmatch(r"let (\w+)=%s\.load\(&(\w+)\)" % STO, s)
        if m:
            a = b.use(m.group(2))
            b.ops.append("MSLoad %d %d false" % (b.fresh(m.group(1)), a))
            continue
        m = re.fullmatch(r"let (\w+)=%s\.load_with_limit\(&(\w+),Some\(value_size_limit\)\)" % STO, s)
        if m:
            a = b.use(m.group(2))
            b.ops.append("MSLoad %d %d true" % (b.fresh(m.group(1)), a))
            continue
        m = re.fullmatch(r"%s\.store\((\w+),(\w+)\)" % STO, s)
        if m:
            b.ops.append("MSStore %d %d" % (b.use(m.group(1)), b.use(m.group(2))))
            continue
        m = re.fullmatch(r"store_return_data\(&(\w+),&(\w+),vm\)\?", s)
        if m:
            b.ops.append("MStoreReturnData %d %d" % (b.use(m.group(1)), b.use(m.group(2))))
            continue
        if s == "let frame=u32::from(self.n())-1":
            b.vars["frame"] = -1
            b.frame_minus = True
            continue
        if s == "let frame=u32::from(self.n())":
            b.vars["frame"] = -1
            b.frame_minus = False
            continue
        if s == "stack.dup(frame)?" and "frame" in b.vars:
            b.ops.append("MDupSelf %s" % ("true" if b.frame_minus else "false"))
            continue
        if s == "stack.swap(frame)?" and "frame" in b.vars and not b.frame_minus:
            b.ops.append("MSwapSelf")
            continue
        return None, "statement not recognised: " + s
    return b.ops, None


def step_opsem(repo, out, consts):
    import tr_valuesig
    problems = []
    vsrc = read(repo, "src/vm/value/mod.rs")
    sig = {name: [(fn, tr_valuesig.KINDS.get(ft, "?")) for fn, ft in fields] for name, fields in tr_valuesig.parse_enum(vsrc)}
    bodies = {}
    modules = {}
    d = os.path.join(repo, "src/opcode")
    for f in sorted(os.listdir(d)):
        if not f.endswith(".rs"):
            continue
        src = read(repo, "src/opcode/" + f)
        for m in re.finditer(r"impl Opcode for (\w+)\s*\{", src):
            end = match_brace(src, m.end() - 1)
            body = src[m.end():end - 1]
            fm = re.search(r"fn execute\(&self,\s*_?vm:\s*&mut VM\)\s*->\s*ExecuteResult\s*\{", body)
            if not fm:
                problems.append("%s: no execute()" % m.group(1))
                continue
            fe = match_brace(body, fm.end() - 1)
            bodies[m.group(1)] = body[fm.end():fe - 1]
            modules[m.group(1)] = f[:-3]
    sems = {}
    irregular = []
    delegates = {}
    for name, body in bodies.items():
        nb = norm(body)
        dm = re.fullmatch(r"(\w+)\.execute\(vm\)", nb)
        if dm:
            delegates[name] = dm.group(1)
            continue
        ops, why = parse_body(split_statements(body), sig)
        if ops is None:
            irregular.append(name)
            if name not in IRREGULAR_ALLOWED:
                problems.append("%s::execute: %s" % (name, why))
        else:
            sems[name] = ops
    for name, target in delegates.items():
        if target in sems:
            sems[name] = sems[target]
        else:
            problems.append("%s delegates to %s which has no straight-line body" % (name, target))
    for name in IRREGULAR_ALLOWED:
        if name not in irregular:
            problems.append("%s::execute became straight-line; the hand-written model of it is no longer the one in force" % name)
    PARAM = {"PushN", "DupN", "SwapN", "LogN", "Nop", "Invalid"}
    s = HEADER + "From SLX Require Import Base gen.ValueSig gen.OpcodeTable Micro.\nOpen Scope N_scope.\n\n"
    s += "(* straight-line `execute` bodies, one micro-program per opcode; None = hand-modelled in VM.v *)\n"
    s += "Definition op_sem (o : opname) : option (list mop) :=\n  match o with\n"
    for name in sorted(bodies):
        if name in PARAM:
            continue
        cn = "%s_%s" % (modules[name], name)
        if name in sems:
            s += "  | %s => Some [%s]\n" % (cn, "; ".join(sems[name]))
        else:
            s += "  | %s => None\n" % cn
    s += "  end.\n\n"
    for name, dn in (("PushN", "pushn_sem"), ("DupN", "dupn_sem"), ("SwapN", "swapn_sem"), ("Nop", "nop_sem"), ("Invalid", "invalid_sem")):
        s += "Definition %s : list mop := [%s].\n" % (dn, "; ".join(sems.get(name, [])))
        if name not in sems:
            problems.append("%s::execute not straight-line" % name)
    s += "Definition irregular_ops : list opname := [" + "; ".join(
        "%s_%s" % (modules[n], n) for n in sorted(irregular) if n not in PARAM) + "].\n"
    write_if_changed(os.path.join(out, "OpcodeSem.v"), s)
    return problems, {"straight_line": len(sems), "irregular": sorted(irregular)}


steps = [("T9-opcode-semantics", step_opsem)]
