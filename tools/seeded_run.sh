#!/bin/sh
# seeded_run.sh <seeded-id> <property>...: apply /verif/seeded/<id>/patch.diff to /repo, run the named
# quick checks, undo the patch straight afterwards, and record what each check said in
# seeded/<id>/check_results.txt.  Evidence files written during the run are restored from git
# afterwards (evidence must describe the unchanged tree).
set -u
cd "$(dirname "$0")/.."
ID=$1; shift
P=seeded/$ID/patch.diff
[ -f "$P" ] || { echo "no $P"; exit 2; }
[ -z "$(git -C /repo status --porcelain)" ] || { echo "/repo not clean"; exit 2; }
git -C /repo apply "$PWD/$P" || { echo "patch does not apply"; exit 2; }
OUT=seeded/$ID/check_results.txt
: > "$OUT"
for C in "$@"; do
  S=$(date +%s)
  ./check "$C" --tier quick > build/seeded_${ID}_$C.log 2>&1
  RC=$?
  E=$(( $(date +%s) - S ))
  {
    echo "== ./check $C --tier quick   (with seeded/$ID/patch.diff applied to /repo): rc=$RC, ${E}s"
    grep -E '^VIOLATION' build/seeded_${ID}_$C.log | head -5
    grep -E 'done:' build/seeded_${ID}_$C.log | tail -1
    R=$(grep -E '^VIOLATION' build/seeded_${ID}_$C.log | head -1 | sed -n 's/.*replay=\([^ ]*\).*/\1/p')
    if [ -n "$R" ] && [ -f "$R" ]; then echo "-- first replay ($R):"; head -c 1500 "$R"; echo; fi
  } >> "$OUT"
done
git -C /repo checkout -- .
git checkout -- evidence 2>/dev/null
cat "$OUT"
