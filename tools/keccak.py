"""Pure-Python keccak-256 (independent of the implementation's sha3 crate); used to build inputs and to cross-check the
slot table exported by the harness."""
_RC = [0x0000000000000001, 0x0000000000008082, 0x800000000000808A, 0x8000000080008000, 0x000000000000808B,
       0x0000000080000001, 0x8000000080008081, 0x8000000000008009, 0x000000000000008A, 0x0000000000000088,
       0x0000000080008009, 0x000000008000000A, 0x000000008000808B, 0x800000000000008B, 0x8000000000008089,
       0x8000000000008003, 0x8000000000008002, 0x8000000000000080, 0x000000000000800A, 0x800000008000000A,
       0x8000000080008081, 0x8000000000008080, 0x0000000080000001, 0x8000000080008008]
_ROT = [[0, 36, 3, 41, 18], [1, 44, 10, 45, 2], [62, 6, 43, 15, 61], [28, 55, 25, 21, 56], [27, 20, 39, 8, 14]]
_M64 = (1 << 64) - 1


def _f1600(a):
    for rc in _RC:
        c = [a[x][0] ^ a[x][1] ^ a[x][2] ^ a[x][3] ^ a[x][4] for x in range(5)]
        d = [c[(x - 1) % 5] ^ (((c[(x + 1) % 5] << 1) | (c[(x + 1) % 5] >> 63)) & _M64) for x in range(5)]
        a = [[a[x][y] ^ d[x] for y in range(5)] for x in range(5)]
        b = [[0] * 5 for _ in range(5)]
        for x in range(5):
            for y in range(5):
                r = _ROT[x][y]
                v = a[x][y]
                b[y][(2 * x + 3 * y) % 5] = ((v << r) | (v >> (64 - r))) & _M64 if r else v
        a = [[b[x][y] ^ ((~b[(x + 1) % 5][y]) & b[(x + 2) % 5][y]) for y in range(5)] for x in range(5)]
        a[0][0] ^= rc
    return a


def keccak256(data):
    rate = 136
    p = bytearray(data)
    p.append(0x01)
    while len(p) % rate:
        p.append(0)
    p[-1] |= 0x80
    a = [[0] * 5 for _ in range(5)]
    for off in range(0, len(p), rate):
        blk = p[off:off + rate]
        for i in range(rate // 8):
            a[i % 5][i // 5] ^= int.from_bytes(blk[8 * i:8 * i + 8], "little")
        a = _f1600(a)
    out = b"".join(a[i % 5][i // 5].to_bytes(8, "little") for i in range(4))
    return int.from_bytes(out, "big")




def keccak_of_slot(n):
    """keccak256 of the 32-byte big-endian encoding of n, as an integer"""
    return keccak256(n.to_bytes(32, "big"))
