#!/bin/sh
# Builds the framework offline from files on disk: regenerated tables, the whole Coq development
# (full .vo build, no -vos), and the Rust harness against /repo's working tree with the hooks on.
set -e
cd "$(dirname "$0")"
export CARGO_NET_OFFLINE=true
python3 tools/translate.py "${VERIF_REPO:-/repo}" >/dev/null
cd coq
python3 ../tools/mkproject.py
timeout 3000 make -f Makefile.coq -j16
cd ../harness
sed "s|@REPO@|${VERIF_REPO:-/repo}|" Cargo.toml.in > Cargo.toml
[ -f Cargo.lock ] || cp /repo/Cargo.lock Cargo.lock
CARGO_TARGET_DIR=../build/harness-target RUSTFLAGS="--cfg smlxl_storage_layout_extractor_verif" timeout 3000 cargo build --offline
echo setup-ok
